(* C02 -- Error-correction blocks are valid RS codewords with the ISO block layout. *)
From Coq Require Import NArith List Bool Arith Lia.
From FQ Require Import Lib.Mat Model.Types Model.Hardcode Model.Qr Spec.IsoTable9 Spec.Iso Spec.Gf
  Proofs.GfField Proofs.BuildMatrix Proofs.Readout Proofs.Decode Proofs.Syndromes Proofs.RsDistance.
Import ListNotations.

(* For every built symbol: un-masking with the reported mask along the ISO read order gives exactly `total codewords` bytes
   (total derived from the geometry) followed by all-zero remainder bits; the Table 9 split has g1 + g2 blocks of the Table 9
   data sizes with ec EC codewords each, total = data + ec x blocks; every block has all-zero syndromes at
   alpha^0 .. alpha^(ec-1) over GF(256)/0x11D (table-free multiplication); the de-interleaved data codewords are the ISO 7.4
   encoding of the input. *)
Theorem C02_blocks_are_rs_codewords : forall input o q,
  options_wf o -> Forall (fun b => (b < 256)%N) input -> build input o = Ok q ->
  let v := q_version q in let l := ecl_idx (q_ecl q) in
  let bits := iso_unmasked_bits v (q_mask q) (vals (q_mat q)) in
  let cw := bits_bytes (firstn (8 * iso_total_codewords v) bits) in
  length cw = iso_total_codewords v /\
  Forall (fun b => b = false) (skipn (8 * iso_total_codewords v) bits) /\
  (let '(d1, g1, d2, g2) := iso_layout v l in
   iso_total_codewords v = iso_data_codewords v l + iso_ec v l * (g1 + g2) /\
   length (iso_blocks_of v l cw) = g1 + g2 /\
   forall b, b < g1 + g2 ->
     length (iso_block_data v l cw b) = (if b <? g1 then d1 else d2) /\ length (iso_block_ec v l cw b) = iso_ec v l /\
     forallb (N.eqb 0) (syndromes (iso_block_data v l cw b ++ iso_block_ec v l cw b) (iso_ec v l)) = true) /\
  iso_deinterleave_data v l cw = iso_codewords (mode_idx (q_mode q)) v l input.
Proof. exact built_blocks. Qed.
Print Assumptions C02_blocks_are_rs_codewords.

(* generic: any block data ++ remainder by the degree-k RS generator has zero syndromes, for every k and every content *)
Theorem C02_rs_block_syndromes : forall k data, Forall (fun b => (b < 256)%N) data ->
  syndromes (data ++ poly_rem data (rs_generator k)) k = repeat 0%N k.
Proof. exact rs_block_syndromes. Qed.
Print Assumptions C02_rs_block_syndromes.

(* the generator has the roots alpha^0 .. alpha^(k-1) *)
Theorem C02_generator_roots : forall k i, i < k -> poly_eval (rs_generator k) (gf_pow2 i) = 0%N.
Proof. exact rs_generator_root. Qed.
Print Assumptions C02_generator_roots.

(* the advertised recovery capacity is real: two words with zero syndromes at alpha^0..alpha^(k-1) (length <= 255) that differ
   in at most k positions are equal (minimum distance k + 1, by Vandermonde elimination over GF(256)) ... *)
Theorem C02_min_distance : forall k (w1 w2 : list N),
  bytes w1 -> bytes w2 -> length w1 = length w2 -> length w1 <= 255 ->
  syndromes w1 k = repeat 0%N k -> syndromes w2 k = repeat 0%N k ->
  hamming w1 w2 <= k -> w1 = w2.
Proof. exact rs_min_distance. Qed.
Print Assumptions C02_min_distance.

(* ... hence a received word within floor(ec/2) symbol errors of an emitted block has that block as its UNIQUE nearest
   codeword: any bounded-distance RS decoder returns it *)
Theorem C02_corrects_errors : forall k t (sent recv other : list N),
  bytes sent -> bytes other -> length recv = length sent -> length recv = length other -> length recv <= 255 ->
  syndromes sent k = repeat 0%N k -> syndromes other k = repeat 0%N k ->
  2 * t <= k -> hamming recv sent <= t -> hamming recv other <= t -> other = sent.
Proof. exact rs_corrects_errors. Qed.
Print Assumptions C02_corrects_errors.
