(* C04 -- Format/version information and reported parameters tell the truth. *)
From Coq Require Import NArith List Bool Arith Lia.
From FQ Require Import Proofs.PropLemmasBuild Lib.Mat Model.Types Model.Hardcode Model.Qr Spec.Iso Spec.Oracles
  Proofs.Tables Proofs.Build Proofs.BuildMatrix Proofs.Readout Proofs.FormatInfo.
Import ListNotations.

(* the tables are the BCH words: BCH(15,5) of (level bits, mask) xor 101010000010010, all 32; BCH(18,6) of the version, 7..40 *)
Theorem C04_format_table_is_bch : forall e k, k < 8 -> format_information e k = iso_format_word (ecl_idx e) k.
Proof. exact format_table_is_bch. Qed.
Print Assumptions C04_format_table_is_bch.

Theorem C04_version_table_is_bch : forall v, 6 <= v < 40 -> version_information v = iso_version_word v.
Proof. exact version_table_is_bch. Qed.
Print Assumptions C04_version_table_is_bch.

(* every built symbol: both format copies at the ISO positions are the word of (reported level, reported mask), the
   reference decoder's look-up recovers exactly that pair, and for versions 7..40 both version blocks are the BCH word
   of the reported version *)
Theorem C04_symbol_encodes_reported_fields : forall input o q, options_wf o -> build input o = Ok q ->
  let m := vals (q_mat q) in
  let w := iso_format_word (ecl_idx (q_ecl q)) (q_mask q) in
  read_word m iso_format_pos1 15 = w /\ read_word m (iso_format_pos2 (q_size q)) 15 = w /\
  iso_find_format w = Some (ecl_idx (q_ecl q), q_mask q) /\
  (6 <= q_version q ->
     read_word m (iso_version_pos1 (q_size q)) 18 = iso_version_word (q_version q) /\
     read_word m (iso_version_pos2 (q_size q)) 18 = iso_version_word (q_version q)).
Proof. exact build_format_info. Qed.
Print Assumptions C04_symbol_encodes_reported_fields.

(* reported = forced = used; level defaults to Q; size = 17 + 4 * version number *)
Theorem C04_reported_fields : forall input o q, build input o = Ok q ->
  q_mode q = eff_mode input o /\ q_ecl q = eff_level o /\ q_size q = version_size (q_version q) /\
  (forall uv, o_version o = Some uv -> q_version q = uv) /\
  (o_version o = None -> iso_min_version (mode_idx (q_mode q)) (ecl_idx (q_ecl q)) (N.of_nat (length input)) = Some (q_version q)) /\
  (forall k, o_mask o = Some k -> q_mask q = k).
Proof. exact build_ok_fields. Qed.
Print Assumptions C04_reported_fields.

Theorem C04_default_level_is_Q : forall o, o_ecl o = None -> eff_level o = EQ.
Proof. exact default_level_is_Q_c04. Qed.
Print Assumptions C04_default_level_is_Q.
