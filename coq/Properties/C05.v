(* C05 -- Smallest sufficient version is chosen; over-capacity is an error, not a panic.
   This file contains only the property theorems, each closed by [exact <lemma>], with Print Assumptions. *)
From Coq Require Import NArith List Bool Arith.
From FQ Require Import Model.Types Model.Hardcode Model.Qr Spec.Iso Proofs.VersionGet Proofs.Build Proofs.Tables.
Import ListNotations.

(* (a) for EVERY length n: Version::get = the first of the 40 versions whose ISO capacity
   (4 + count field + payload bits <= 8 x data codewords of Table 9) holds n characters; None iff none does *)
Theorem C05_version_get_is_min : forall m e n,
  version_get m e n = iso_min_version (mode_idx m) (ecl_idx e) n.
Proof. exact version_get_is_min. Qed.
Print Assumptions C05_version_get_is_min.

(* (b) any forced version at least the minimum also holds the data, and the count fits its field *)
Theorem C05_forced_version_fits : forall m e n v v',
  version_get m e n = Some v -> v <= v' < 40 ->
  iso_fits (mode_idx m) (ecl_idx e) n v' = true /\ (n < 2 ^ N.of_nat (iso_cci (mode_idx m) v'))%N.
Proof. exact forced_version_fits. Qed.
Print Assumptions C05_forced_version_fits.

(* (c) the outcome of build: 'data too big' iff no version fits; otherwise the minimum, or the forced version when
   it is at least the minimum, or 'specified version too small' *)
Theorem C05_build_outcome : forall input o,
  let m := eff_mode input o in
  let e := eff_level o in
  match iso_min_version (mode_idx m) (ecl_idx e) (N.of_nat (length input)) with
  | None => build input o = ErrEncodedData
  | Some vmin =>
      match o_version o with
      | None => build input o = build_matrix input e m vmin (o_mask o)
      | Some uv => if vmin <=? uv then build input o = build_matrix input e m uv (o_mask o)
                   else build input o = ErrSpecifiedVersion
      end
  end.
Proof. exact build_outcome. Qed.
Print Assumptions C05_build_outcome.

(* the capacity used above is the Table 9 one: the code's data-codeword table equals Table 9 for all 160 pairs *)
Theorem C05_capacity_is_table9 : forall v e, v < 40 ->
  N.to_nat (data_codewords v e) = iso_data_codewords v (ecl_idx e).
Proof. exact data_codewords_is_table9. Qed.
Print Assumptions C05_capacity_is_table9.

(* non-vacuity: 41 digits at level L fit version 1, 42 need version 2; 7090 digits fit nothing *)
Example C05_example : version_get Numeric EL 41 = Some 0 /\ version_get Numeric EL 42 = Some 1 /\ version_get Numeric EL 7090 = None.
Proof. vm_compute. auto. Qed.
