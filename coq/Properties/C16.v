(* C16 -- Terminal rendering encodes the matrix faithfully with a one-module border. *)
From Coq Require Import NArith List Bool Arith Lia.
From FQ Require Import Proofs.PropLemmas Lib.Mat Model.Types Model.Hardcode Model.Helpers Model.Qr Proofs.Terminal Proofs.BuildMatrix Proofs.GeomSafe.
Import ListNotations.

(* for EVERY odd size and every matrix: (n+1)/2 + 1 lines of n+2 characters from the four block characters; read back as
   (top, bottom) pairs (space = dark/dark, full block = light/light) the text is the matrix with a one-module light border *)
Theorem C16_terminal_spec : forall n (m : qmat), Nat.odd n = true -> 1 <= n <= 177 -> wf n m ->
  let text := print_matrix_with_margin n m in
  length (split_lines text) = (n + 1) / 2 + 1 /\
  Forall (fun line => length line = n + 2) (split_lines text) /\
  Forall (Forall (fun c => In c [32; 9608; 9600; 9604]%N)) (split_lines text) /\
  option_map (@tl (list bool)) (read_picture text) =
    Some ([repeat false (n+2)] ++ map (fun r => false :: row_vals m r ++ [false]) (seq 0 n) ++ [repeat false (n+2)]).
Proof. exact terminal_spec. Qed.
Print Assumptions C16_terminal_spec.

(* every built symbol meets the hypotheses: odd side between 21 and 177, square matrix *)
Theorem C16_applies_to_builds : forall input o q, options_wf o -> build input o = Ok q ->
  Nat.odd (q_size q) = true /\ 1 <= q_size q <= 177 /\ wf (q_size q) (q_mat q).
Proof. exact applies_to_builds_c16. Qed.
Print Assumptions C16_applies_to_builds.
