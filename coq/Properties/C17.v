(* C17 -- the wasm entry points (wasm.rs compiled for the host): qr, SvgOptions and its setters, qr_svg.
   Only the property theorems, each closed by [exact <lemma>], with Print Assumptions.
   Setters are total functions of the model (there is no panic site left in them: color_to_code has no unwrap);
   the panic sites left in qr_svg are `Color::from(Vec<u8>)` (length not 3 or 4) and QRCode::new itself.
   Not covered: the wasm32 target, the wasm-bindgen glue, usize overflow of 2 * margin + size. *)
From Coq Require Import String Ascii NArith ZArith List Bool Arith.
From FQ Require Import Lib.ListX Lib.Mat Model.Types Model.Qr Model.Svg Model.Wasm Spec.Xml Spec.SvgDoc Proofs.WasmSpec.
Import ListNotations.
Local Open Scope N_scope.

(* (1) every state reachable from SvgOptions::new by setter calls (any arguments; versions are the 40 enum values)
   is well formed: the three colour vectors have 4 components below 256, the version index is below 40 *)
Theorem C17_reachable_wf : forall ops, Forall op_ok ops -> opts_wf (run ops new_options).
Proof. intros ops H. apply run_wf; [exact H|exact new_wf]. Qed.
Print Assumptions C17_reachable_wf.

(* (2) on such a state qr_svg is QRCode::new followed by the native renderer configured as [abs s]; "" on the two
   documented errors; the glue has no panic of its own *)
Theorem C17_qr_svg : forall content s, opts_wf s ->
  qr_svg content s =
    match Qr.build content (qr_options (w_ecl s) (w_version s)) with
    | Ok q => Ok (Svg.to_str (abs s) (q_size q) (q_mat q))
    | ErrEncodedData | ErrSpecifiedVersion => Ok []
    | Panic c => Panic c
    end.
Proof. exact qr_svg_spec. Qed.
Print Assumptions C17_qr_svg.

Theorem C17_no_glue_panic : forall ops content c, Forall op_ok ops ->
  qr_svg content (run ops new_options) = Panic c ->
  Qr.build content (qr_options (w_ecl (run ops new_options)) (w_version (run ops new_options))) = Panic c.
Proof. exact qr_svg_glue_no_panic. Qed.
Print Assumptions C17_no_glue_panic.

(* the renderer is only called with the size of a real version, so Version::from_n does not panic *)
Theorem C17_size_ok : forall content s q, opts_wf s ->
  Qr.build content (qr_options (w_ecl s) (w_version s)) = Ok q -> to_str_panics (abs s) (q_size q) = false.
Proof. exact qr_svg_size_ok. Qed.
Print Assumptions C17_size_ok.

(* (3) malformed values leave the state unchanged *)
Theorem C17_module_color_malformed : forall s color, length (color_to_code color) <> 4%nat -> set_module_color s color = s.
Proof. exact set_module_color_malformed. Qed.
Theorem C17_background_color_malformed : forall s color, length (color_to_code color) <> 4%nat -> set_background_color s color = s.
Proof. exact set_background_color_malformed. Qed.
Theorem C17_image_background_color_malformed : forall s color,
  length (color_to_code color) <> 4%nat -> set_image_background_color s color = s.
Proof. exact set_image_background_color_malformed. Qed.
Theorem C17_image_position_malformed : forall s pos, length pos <> 2%nat -> set_image_position s pos = s.
Proof. exact set_image_position_malformed. Qed.
Print Assumptions C17_module_color_malformed.
Print Assumptions C17_image_position_malformed.

(* color_to_code: bytes only; and it reads back the colours the renderer prints *)
Theorem C17_color_bytes : forall color, Forall (fun x => x < 256) (color_to_code color).
Proof. exact color_to_code_bytes. Qed.
Print Assumptions C17_color_bytes.
Theorem C17_color_roundtrip : forall x, rgba_ok x = true -> color_to_code (rgba2hex x) = [c_r x; c_g x; c_b x; c_a x].
Proof. exact color_to_code_rgba2hex. Qed.
Print Assumptions C17_color_roundtrip.

(* (4) qr: the module values row by row, or empty on error *)
Theorem C17_qr : forall content,
  qr content = match Qr.build content no_options with
               | Ok q => Ok (bool_to_u8 q)
               | ErrEncodedData | ErrSpecifiedVersion => Ok []
               | Panic c => Panic c
               end.
Proof. exact qr_spec. Qed.
Theorem C17_qr_length : forall q, length (bool_to_u8 q) = (q_size q * q_size q)%nat.
Proof. exact bool_to_u8_length. Qed.
Theorem C17_qr_bits : forall q, Forall (fun x => x = 0 \/ x = 1) (bool_to_u8 q).
Proof. exact bool_to_u8_bits. Qed.
Theorem C17_qr_nth : forall q r c, (r < q_size q)%nat -> (c < q_size q)%nat ->
  nth (r * q_size q + c) (bool_to_u8 q) 0 = if snd (qget (q_mat q) r c) then 1 else 0.
Proof. exact bool_to_u8_nth. Qed.
Print Assumptions C17_qr_length.
Print Assumptions C17_qr_bits.
Print Assumptions C17_qr_nth.

(* (5) the extracted driver runs the unchecked build; on well-formed states it is the same function *)
Theorem C17_driver_runs_qr_svg : forall content s, opts_wf s -> qr_svg_unchecked content s = qr_svg content s.
Proof. exact qr_svg_unchecked_eq. Qed.
Theorem C17_driver_runs_qr : forall content, qr_unchecked content = qr content.
Proof. exact qr_unchecked_eq. Qed.
Print Assumptions C17_driver_runs_qr_svg.

(* (6) with C12: a successful qr_svg returns a well-formed document of the expected structure *)
Theorem C17_output_well_formed : forall ops content q,
  let s := run ops new_options in
  Forall op_ok ops -> chars_ok (w_image s) = true ->
  Qr.build content (qr_options (w_ecl s) (w_version s)) = Ok q ->
  exists text, qr_svg content s = Ok text /\ xml_parse text = Some (expected_doc (abs s) (q_size q) (q_mat q)).
Proof. exact qr_svg_well_formed. Qed.
Print Assumptions C17_output_well_formed.
