(* C14 -- Building is a pure function of input and options, on any thread, in any order.
   PARTIAL by nature: the theorems cover the option algebra of the builder (the logic); thread schedules and hidden state in
   the compiled code are runtime behaviour, covered by the correspondence streams `hist` and `threads` and by the lexical
   purity scan whose (empty) result is the last theorem. Rust's aliasing rules (&self / &QRCode) are trusted. *)
From Coq Require Import NArith List Bool Arith.
From FQ Require Import Model.Types Model.Qr Model.Builder Generated.Purity Proofs.History.
Import ListNotations.

Theorem C14_last_value_wins : forall ops b,
  let b' := fst (run_history b ops) in
  b_input b' = b_input b /\
  o_mode (b_opts b') = last_some sel_mode ops (o_mode (b_opts b)) /\
  o_ecl (b_opts b') = last_some sel_ecl ops (o_ecl (b_opts b)) /\
  o_version (b_opts b') = last_some sel_version ops (o_version (b_opts b)) /\
  o_mask (b_opts b') = last_some sel_mask ops (o_mask (b_opts b)).
Proof. exact history_state. Qed.
Print Assumptions C14_last_value_wins.

Theorem C14_every_build_is_a_function_of_current_fields : forall ops b,
  Forall (fun r => exists pre, exists post, ops = pre ++ Build :: post /\
                    r = build (b_input b) (b_opts (fst (run_history b pre)))) (snd (run_history b ops)).
Proof. exact build_is_function. Qed.
Print Assumptions C14_every_build_is_a_function_of_current_fields.

Theorem C14_same_final_fields_same_output : forall input ops1 ops2,
  b_opts (fst (run_history (new_builder input) ops1)) = b_opts (fst (run_history (new_builder input) ops2)) ->
  snd (bstep (fst (run_history (new_builder input) ops1)) Build) = snd (bstep (fst (run_history (new_builder input) ops2)) Build).
Proof. exact same_final_fields_same_output. Qed.
Print Assumptions C14_same_final_fields_same_output.

Theorem C14_build_leaves_state : forall b, fst (bstep b Build) = b.
Proof. exact build_leaves_state. Qed.
Print Assumptions C14_build_leaves_state.

Theorem C14_no_hidden_state_found : purity_findings = [].
Proof. exact no_hidden_state. Qed.
Print Assumptions C14_no_hidden_state_found.
