(* C15 -- Every module's public type label matches its ISO region. *)
From Coq Require Import NArith List Bool Arith Lia.
From FQ Require Import Proofs.PropLemmas Lib.Mat Model.Types Model.Hardcode Model.Default Model.Qr Spec.Iso Spec.Oracles
  Proofs.Tables Proofs.Geometry Proofs.GeomSafe Proofs.Build Proofs.BuildMatrix Proofs.Regions.
Import ListNotations.

(* labels: Data 0 (encoding region), Finder 1, Alignment 2, Timing 3, Format 4, Version 5, DarkModule 6, Empty 7 (separator);
   independent of payload, level and mask *)
Theorem C15_labels_are_regions : forall input o q, options_wf o -> build input o = Ok q ->
  forall r c, r < q_size q -> c < q_size q ->
    fst (qget (q_mat q) r c) = region_type (iso_region (q_version q) r c).
Proof. exact labels_are_regions_c15. Qed.
Print Assumptions C15_labels_are_regions.

(* the number of encoding-region modules is 8 x total codewords + remainder bits, and those derived from the geometry
   equal the code's tables *)
Theorem C15_data_count : forall v, v < 40 ->
  length (iso_data_coords v) = 8 * iso_total_codewords v + iso_remainder_bits v /\
  N.of_nat (iso_total_codewords v) = max_bytes v /\ N.of_nat (iso_remainder_bits v) = missing_bits v.
Proof. exact data_count_c15. Qed.
Print Assumptions C15_data_count.
