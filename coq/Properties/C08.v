(* C08 -- Masking applies exactly the ISO pattern, only to the encoding region. *)
From Coq Require Import NArith List Bool Arith Lia.
From FQ Require Import Lib.Mat Model.Types Model.Hardcode Model.Default Model.Masking Model.Qr Spec.Iso Spec.Oracles
  Proofs.Stages Proofs.Plans Proofs.Final Proofs.BuildMatrix Proofs.Regions Proofs.DataCells Proofs.MaskPairs.
Import ListNotations.

(* for ANY matrix of a symbol size (any module types): the sweep toggles exactly the Data cells where the Table 10
   condition holds, and nothing else; types are unchanged *)
Theorem C08_mask_is_table10 : forall v k m r c, v < 40 -> k < 8 -> wf (version_size v) m ->
  r < version_size v -> c < version_size v ->
  qget (apply_mask (version_size v) m k) r c =
  let x := qget m r c in if is_data x && iso_cond k r c then cell_toggle x else x.
Proof. exact apply_mask_spec. Qed.
Print Assumptions C08_mask_is_table10.

(* the same payload with two forced masks: encoding-region cells differ exactly where the two conditions disagree,
   every cell outside the encoding region other than format information is identical *)
Theorem C08_two_masks : forall input o a b qa qb, options_wf o -> a < 8 -> b < 8 ->
  build input (with_mask o a) = Ok qa -> build input (with_mask o b) = Ok qb ->
  q_version qa = q_version qb /\ q_size qa = q_size qb /\
  forall r c, r < q_size qa -> c < q_size qa ->
    match iso_region (q_version qa) r c with
    | RData => xorb (snd (qget (q_mat qa) r c)) (snd (qget (q_mat qb) r c)) = xorb (iso_cond a r c) (iso_cond b r c)
    | RFormat => True
    | _ => qget (q_mat qa) r c = qget (q_mat qb) r c
    end.
Proof. exact two_masks. Qed.
Print Assumptions C08_two_masks.

(* un-masking with the pattern named in the symbol recovers the same bits whatever mask was used *)
Theorem C08_unmask_independent : forall input o a b qa qb, options_wf o -> a < 8 -> b < 8 ->
  build input (with_mask o a) = Ok qa -> build input (with_mask o b) = Ok qb ->
  iso_unmasked_bits (q_version qa) a (map (map snd) (q_mat qa)) = iso_unmasked_bits (q_version qb) b (map (map snd) (q_mat qb)).
Proof. exact unmask_independent. Qed.
Print Assumptions C08_unmask_independent.
