(* C11 -- Automatic mask minimises the documented penalty over all eight masks. *)
From Coq Require Import NArith List Bool Arith Lia.
From FQ Require Import Proofs.PropLemmasBuild Lib.Mat Model.Types Model.Hardcode Model.Default Model.Masking Model.Score Model.Placement Model.Qr
  Spec.Penalty Proofs.Scanner Proofs.ScoreSpec Proofs.Build Proofs.BuildMatrix Proofs.Select.
Import ListNotations.

(* the one-pass line scanner computes 40 per 1011101 window + (N-2) per run of N >= 5, for EVERY line *)
Theorem C11_line_is_spec : forall l, line l = ((40 * windows (map pc l))%N, runs_penalty (map pc l)).
Proof. exact line_is_spec_all. Qed.
Print Assumptions C11_line_is_spec.

(* the whole score of a candidate is the documented penalty of that candidate (rows AND columns of the candidate itself) *)
Theorem C11_score_is_penalty : forall n m, wf n m -> n >= 2 -> layout_col01 m ->
  (count_dark m < N.of_nat n * N.of_nat n)%N -> score n m (transpose n m) = iso_penalty (map (map pc) m).
Proof. exact score_is_penalty. Qed.
Print Assumptions C11_score_is_penalty.

(* with no mask forced: the emitted mask is the one the selection loop returns, all eight candidates are the same placed
   matrix under the eight masks, and the emitted one has minimal documented penalty *)
Theorem C11_mask_minimal : forall input o q, options_wf o -> o_mask o = None -> build input o = Ok q ->
  let v := q_version q in
  let n := version_size v in
  let P := placed_matrix v (stream_of input (q_ecl q) (q_mode q) v) in
  q_mask q = select_mask n P /\ q_mask q < 8 /\
  q_mat q = apply_mask n (place_format n P (q_ecl q) (q_mask q)) (q_mask q) /\
  forall j, j < 8 ->
    (iso_penalty (map (map pc) (apply_mask n P (q_mask q))) <= iso_penalty (map (map pc) (apply_mask n P j)))%N.
Proof. exact build_mask_minimal. Qed.
Print Assumptions C11_mask_minimal.

(* ties go to the mask tried first; the loop tries 0..7 in order *)
Theorem C11_first_minimum : forall n m, wf n m -> n <= 177 ->
  exists pre post, masks_order = pre ++ select_mask n m :: post /\
                   forall j, In j pre -> (score_of n m (select_mask n m) < score_of n m j)%N.
Proof. exact select_mask_first. Qed.
Print Assumptions C11_first_minimum.

(* a forced mask always overrides the selection *)
Theorem C11_forced_mask : forall input o q k, o_mask o = Some k -> build input o = Ok q -> q_mask q = k.
Proof. exact forced_mask_c11. Qed.
Print Assumptions C11_forced_mask.
