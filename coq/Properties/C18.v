(* C18 -- the embedded-image frame (SvgBuilder::image), exact arithmetic on the fixed-point model
   (fx = thousandths of a module; overrides in hundredths). Only the property theorems, each closed by [exact <lemma>].
   The f64 evaluation agrees with this model whenever it is exact: the defaults, and overrides that are multiples
   of 0.25 (checked byte for byte by the `svg` stream); IEEE rounding of other overrides is not modelled. *)
From Coq Require Import String Ascii NArith ZArith List Bool Arith.
From FQ Require Import Lib.ListX Lib.Mat Generated.Tables Model.Types Model.Hardcode Model.Svg Spec.SvgDoc
  Proofs.ImageFrame Proofs.SvgReadBack.
Import ListNotations.
Local Open Scope Z_scope.

(* (1) defaults, all 40 versions x 3 background shapes x EVERY margin: the frame is a square of integer side b at the
   integer offset x = (n + 2 margin - b) / 2 (2x + b = n + 2 margin: centred on the symbol; n and b are odd, the parity
   adjustment does not fire), the image has the integer default side *)
Theorem C18_default_geometry : forall c v, (v < 40)%nat -> no_overrides c ->
  let s := c_image_background_shape c in
  image_geometry c (N.of_nat (version_size v)) v =
    (1000 * frame_offset c v, 1000 * frame_offset c v, 1000 * frame_side v, 1000 * image_side s v)
  /\ 2 * frame_offset c v + frame_side v = sym_size v + 2 * Z.of_N (c_margin c).
Proof. exact default_geometry. Qed.
Print Assumptions C18_default_geometry.

Theorem C18_default_parity : forall c v, (v < 40)%nat -> no_overrides c ->
  parity_fires c (N.of_nat (version_size v)) v = false.
Proof. exact default_parity. Qed.
Print Assumptions C18_default_parity.

(* (2) clear of the finder patterns and separators; b < 2n/5; b(v) <= b(v+1) *)
Theorem C18_default_frame_clear : forall c v, (v < 40)%nat ->
  let x := frame_offset c v in
  let m := Z.of_N (c_margin c) in
  m + 8 <= x /\ x + frame_side v <= m + sym_size v - 8
  /\ 2 * x + frame_side v = 2 * m + sym_size v
  /\ 5 * frame_side v < 2 * sym_size v.
Proof. exact default_frame_clear. Qed.
Print Assumptions C18_default_frame_clear.

Theorem C18_frame_monotone : forall v, (v < 39)%nat -> frame_side v <= frame_side (S v).
Proof. exact frame_side_monotone. Qed.
Print Assumptions C18_frame_monotone.

(* (3) the default image is not larger than the frame and is centred in it *)
Theorem C18_default_image : forall c v, (v < 40)%nat ->
  let s := c_image_background_shape c in
  let b := 1000 * frame_side v in
  let i := 1000 * image_side s v in
  let px := 1000 * frame_offset c v in
  1 <= image_side s v <= frame_side v /\ 2 * (px + (b - i) / 2) + i = 2 * px + b.
Proof. exact default_image_centred. Qed.
Print Assumptions C18_default_image.

(* (4) overrides, any size / gap / position (hundredths), any margin, shape, size n and table index v *)
Theorem C18_override_geometry : forall c n v px py b i,
  image_geometry c n v = (px, py, b, i) ->
  let total := 1000 * Z.of_N (c_margin c * 2 + n) in
  i = requested_image c v
  /\ b = (if parity_fires c n v then requested_frame c v - 1000 else requested_frame c v)
  /\ match c_image_position c with
     | Some (x, y) => 2 * px + b = 2 * (10 * x) /\ 2 * py + b = 2 * (10 * y)
     | None => 2 * px + b = total /\ py = px
     end
  /\ 2 * (px + (b - i) / 2) + i = 2 * px + b
  /\ 2 * (py + (b - i) / 2) + i = 2 * py + b.
Proof. exact override_geometry. Qed.
Print Assumptions C18_override_geometry.

(* (5) the printed attributes denote these values: x, y, width, height of the frame exactly; those of the image
   (two decimals) within 0.005, exactly when the value is a multiple of 0.01 *)
Theorem C18_frame_attributes_exact : forall t, read_fx (fx_to_string t) = Some t.
Proof. exact read_fx_to_string. Qed.
Print Assumptions C18_frame_attributes_exact.

Theorem C18_image_attributes : forall t, exists t', read_fx (fx_fixed2 t) = Some t' /\
  (Z.rem t' 10 = 0 /\ Z.abs (t' - t) <= 5 /\ (Z.rem t 10 = 0 -> t' = t)).
Proof. exact read_fx_fixed2. Qed.
Print Assumptions C18_image_attributes.
