(* C13 -- raster / PNG output reproduces the matrix at module centres: the LOGIC part.
   This file contains only the property theorems, each closed by [exact <lemma>], with Print Assumptions.

   The property: "for every QR code, margin, built-in shape and colour pair, the rendered pixmap is square with side
   size + 2 margin pixels at original scale (or, when a fit width and/or height is requested, the largest square
   satisfying the request), the pixel at the centre of every dark module is the module colour and the pixel at the
   centre of every light module and of every quiet-zone cell is the background colour (for the square shape at
   integer scale every pixel of the cell, not just its centre), and the PNG byte output decodes to the same pixels."

   What is PROVED here (about Model/Image.v and the exact-rational geometry of Spec/RasterGeom.v; theorems that cover
   only part of the property are named ..._partial):
     (a) every Builder setter of ImageBuilder forwards to the inner SvgBuilder; fit_width / fit_height: last value wins,
         inner state untouched; hence the SVG text rasterised is Svg.to_str of the same history (property C12 then says
         what that text is);
     (b) the size of the pixmap allocated by to_pixmap, from the usvg 0.28.0 formulas, for a square S x S document:
         Original (S, S), Width(w) (w, w), Height(h) (h, h), Size(w, h) (min w h, min w h); to_pixmap panics iff a
         requested side is 0;
     (c) geometry of the six module outlines and of the pixel grid: which points are painted.

   What is ASSUMED about the runtime, and is checked differentially by the Rust harness, not here:
     R1 usvg parses the SVG text into the tree the text denotes: an S x S view box, a background rectangle covering it,
        one path per layer whose sub-paths are the module outlines of Spec/RasterGeom.v (SVG path semantics: relative
        h / v / l commands, implicit line-to after M, elliptical arc flags, implicit closing for fill, nonzero fill rule
        with equally oriented sub-paths = union of the outlines, round-joined stroke of width .3 = all points within
        .15 of the polygon's boundary).
     R2 resvg maps document coordinates to pixels by the uniform scale P / S without offset (square document, square
        pixmap), so that pixel (i, j) is the square [i S/P, (i+1) S/P] x [j S/P, (j+1) S/P] of the document, and
        tiny-skia's anti-aliased fill gives a pixel that lies ENTIRELY inside a filled path exactly the fill colour
        composited over what is below it, and leaves a pixel whose interior meets no path with the colour of the
        background rectangle (the colour given to background_color; transparent stays transparent). With an opaque
        module colour a pixel inside both the fill and the stroke of a rounded square gets that colour as well; for a
        translucent module colour such a pixel is painted twice (see C13_rounded_fill_only_partial for the fill-only zone).
     R3 Pixmap::new succeeds for the computed size; f64 arithmetic in usvg is exact for S * max(w, h) < 2^53
        (Model/Image.v header).
     R4 PNG: png::Decoder (encode_png (pixmap)) = pixmap (to_bytes = encode_png (to_pixmap), to_file = save_png
        (to_pixmap): image.rs l.190-203, by construction -- nothing to prove in the model).
   Outside the statement: several layers (the top-most layer decides a pixel; the theorems below hold for each layer
   separately), the embedded image (drawn above the modules), colours given as strings, Shape::Command. *)
From Coq Require Import NArith ZArith QArith Qabs List Bool.
From FQ Require Import Lib.Mat Model.Types Model.Svg Model.Image Spec.RasterGeom Proofs.Raster.
Import ListNotations.

(* ============================================================================================================ *)
(* (a) forwarding                                                                                                *)

(* for every history of calls on an ImageBuilder, the inner SvgBuilder is the one obtained by applying the Builder
   calls of the history, in order, to the initial inner SvgBuilder *)
Theorem C13_forwarding : forall (ops : list iop) (b : image_builder),
  svg (run_img b ops) = run_svg (svg b) (builder_ops ops).
Proof. exact forwarding. Qed.
Print Assumptions C13_forwarding.

Theorem C13_forwarding_default : forall ops : list iop,
  svg (run_img Image.default ops) = run_svg Svg.default (builder_ops ops).
Proof. exact forwarding_default. Qed.
Print Assumptions C13_forwarding_default.

(* fit_width / fit_height: the last value given wins; nothing else changes them *)
Theorem C13_fit_width_last : forall ops b, fit_width (run_img b ops) = last_fit_width ops (fit_width b).
Proof. exact fit_width_last. Qed.
Print Assumptions C13_fit_width_last.

Theorem C13_fit_height_last : forall ops b, fit_height (run_img b ops) = last_fit_height ops (fit_height b).
Proof. exact fit_height_last. Qed.
Print Assumptions C13_fit_height_last.

(* the FitTo value chosen by to_pixmap *)
Theorem C13_fit_request : forall ops b,
  fit_request (run_img b ops) =
  match last_fit_width ops (fit_width b), last_fit_height ops (fit_height b) with
  | Some w, Some h => FitSize w h
  | Some w, None => FitWidth w
  | None, Some h => FitHeight h
  | None, None => FitOriginal
  end.
Proof. exact fit_request_last. Qed.
Print Assumptions C13_fit_request.

(* ============================================================================================================ *)
(* (b) pixmap size. S = size + 2 margin, 1 <= S <= 2^32 - 1; requested sides are u32 values >= 1                  *)

Local Open Scope N_scope.

Theorem C13_size_original : forall b S, 1 <= S -> S <= u32_max ->
  fit_width b = None -> fit_height b = None -> pixmap_side b S = (S, S).
Proof. exact pixmap_side_original. Qed.
Print Assumptions C13_size_original.

Theorem C13_size_width : forall b S, 1 <= S -> S <= u32_max ->
  forall w, fit_width b = Some w -> fit_height b = None -> 1 <= w -> w <= u32_max -> pixmap_side b S = (w, w).
Proof. exact pixmap_side_width. Qed.
Print Assumptions C13_size_width.

Theorem C13_size_height : forall b S, 1 <= S -> S <= u32_max ->
  forall h, fit_width b = None -> fit_height b = Some h -> 1 <= h -> h <= u32_max -> pixmap_side b S = (h, h).
Proof. exact pixmap_side_height. Qed.
Print Assumptions C13_size_height.

Theorem C13_size_both : forall b S, 1 <= S -> S <= u32_max ->
  forall w h, fit_width b = Some w -> fit_height b = Some h ->
  1 <= w -> w <= u32_max -> 1 <= h -> h <= u32_max ->
  pixmap_side b S = (N.min w h, N.min w h).
Proof. exact pixmap_side_size. Qed.
Print Assumptions C13_size_both.

(* all four cases: a square, of the requested side (the smaller of the requested sides; S when nothing is requested) *)
Theorem C13_size_square : forall b S, 1 <= S -> S <= u32_max ->
  fit_in_range (fit_width b) -> fit_in_range (fit_height b) ->
  pixmap_side b S = (requested_side b S, requested_side b S) /\ 1 <= requested_side b S.
Proof. exact pixmap_side_square. Qed.
Print Assumptions C13_size_square.

(* FINDING (model of image.rs l.173-184 + resvg lib.rs l.89): fit_width(0) or fit_height(0) makes to_pixmap panic *)
Theorem C13_panics_iff_zero_fit : forall b S,
  to_pixmap_panics b S = true <-> (fit_width b = Some 0 \/ fit_height b = Some 0).
Proof. exact to_pixmap_panics_iff. Qed.
Print Assumptions C13_panics_iff_zero_fit.

(* ============================================================================================================ *)
(* (c) geometry                                                                                                  *)

Local Open Scope Q_scope.

(* the centre of a module is inside its own outline with clearance: the outline contains the axis-parallel square of
   half-side [clearance s] (Square 1/2, Vertical = Horizontal = RoundedSquare 2/5, Circle 3/10, Diamond 1/4) about it *)
Theorem C13_outline_clearance_partial : forall s x y X Y,
  in_box (cell_cx x) (cell_cy y) (clearance s) X Y -> outline s x y X Y.
Proof. exact outline_clearance. Qed.
Print Assumptions C13_outline_clearance_partial.

Theorem C13_clearance_ge_quarter_partial : forall s, 1#4 <= clearance s.
Proof. exact clearance_ge_quarter. Qed.
Print Assumptions C13_clearance_ge_quarter_partial.

(* every outline stays in its own cell except for at most .05 above it; hence in the cell enlarged by .05 *)
Theorem C13_outline_reach_partial : forall s x y X Y,
  outline s x y X Y -> in_rect (zq x) (zq x + 1) (zq y - (1#20)) (zq y + 1) X Y.
Proof. exact outline_reach. Qed.
Print Assumptions C13_outline_reach_partial.

Theorem C13_outline_in_enlarged_cell_partial : forall s x y X Y,
  outline s x y X Y -> in_rect (zq x - (1#20)) (zq x + (21#20)) (zq y - (1#20)) (zq y + (21#20)) X Y.
Proof. exact outline_in_enlarged_cell. Qed.
Print Assumptions C13_outline_in_enlarged_cell_partial.

(* the .05 is really used: the circle of cell (x, y) paints the point (x + .5, y - .04) of the cell above *)
Theorem C13_circle_reaches_above_partial : forall x y, circle_outline x y (zq x + (1#2)) (zq y - (1#25)).
Proof. exact circle_reaches_above. Qed.
Print Assumptions C13_circle_reaches_above_partial.

(* the descriptions used for the diamond, the rounded square and the circle agree with the other natural ones *)
Theorem C13_diamond_abs_partial : forall x y X Y,
  diamond_outline x y X Y <-> Qabs (X - cell_cx x) + Qabs (Y - cell_cy y) <= 1#2.
Proof. exact diamond_abs. Qed.
Print Assumptions C13_diamond_abs_partial.

Theorem C13_rounded_split_partial : forall x y X Y,
  rounded_outline x y X Y <-> (rounded_fill x y X Y \/ rounded_stroke x y X Y).
Proof. exact rounded_split. Qed.
Print Assumptions C13_rounded_split_partial.

Theorem C13_rounded_fill_only_partial : forall x y e X Y,
  e < 3#20 -> in_box (cell_cx x) (cell_cy y) e X Y -> ~ rounded_stroke x y X Y.
Proof. exact rounded_stroke_far. Qed.
Print Assumptions C13_rounded_fill_only_partial.

Theorem C13_circle_inner_partial : forall x y X Y, circle_inner x y X Y -> circle_outline x y X Y.
Proof. exact circle_inner_outline. Qed.
Print Assumptions C13_circle_inner_partial.

Theorem C13_circle_outer_partial : forall x y X Y, circle_outline x y X Y -> circle_outer x y X Y.
Proof. exact circle_outline_outer. Qed.
Print Assumptions C13_circle_outer_partial.

Theorem C13_circle_bbox_partial : forall x y X Y,
  circle_outline x y X Y -> in_rect (zq x) (zq x + 1) (zq y - (1#20)) (zq y + (19#20)) X Y.
Proof. exact circle_bbox. Qed.
Print Assumptions C13_circle_bbox_partial.

(* a point within e < .45 (per axis) of the centre of a cell is outside the outline of every other cell *)
Theorem C13_outline_far_partial : forall s x y x' y' e X Y,
  (x' <> x \/ y' <> y) -> e < 9#20 -> in_box (cell_cx x) (cell_cy y) e X Y -> ~ outline s x' y' X Y.
Proof. exact outline_far. Qed.
Print Assumptions C13_outline_far_partial.

(* the centre of the pixel containing a point is within half a pixel of it *)
Theorem C13_pixel_centre_near_partial : forall a h c : Q, a <= c -> c <= a + h ->
  - (h * (1#2)) <= a + h * (1#2) - c /\ a + h * (1#2) - c <= h * (1#2).
Proof. exact pixel_centre_near. Qed.
Print Assumptions C13_pixel_centre_near_partial.

(* MAIN, any shape, any set of dark cells, pixel size h <= 1/4 (at least 4 pixels per module): EVERY point of the pixel
   (lower corner (a, b), side h) that contains the centre of cell (x, y) is painted iff the cell is dark *)
Theorem C13_pixel_colour_class_partial : forall s (dark : Z -> Z -> Prop) (a b h : Q) x y X Y,
  h <= 1#4 -> in_pixel a b h (cell_cx x) (cell_cy y) -> in_pixel a b h X Y ->
  (covered s dark X Y <-> dark x y).
Proof. exact pixel_colour_class. Qed.
Print Assumptions C13_pixel_colour_class_partial.

(* the same with the pixel index spelled out: pixmap side P, document side S, P >= 4 S; the pixel is
   (floor((x + 1/2) P / S), floor((y + 1/2) P / S)) *)
Theorem C13_centre_pixel_contains_partial : forall P S x y,
  in_pixel (pixel_lo P S (centre_pixel P S x)) (pixel_lo P S (centre_pixel P S y)) (pixel_size P S)
           (cell_cx x) (cell_cy y).
Proof. exact centre_pixel_in_pixel. Qed.
Print Assumptions C13_centre_pixel_contains_partial.

Theorem C13_centre_pixel_colour_class_partial : forall s (dark : Z -> Z -> Prop) (P S : positive) x y X Y,
  (4 * Zpos S <= Zpos P)%Z ->
  in_pixel (pixel_lo P S (centre_pixel P S x)) (pixel_lo P S (centre_pixel P S y)) (pixel_size P S) X Y ->
  (covered s dark X Y <-> dark x y).
Proof. exact centre_pixel_colour_class. Qed.
Print Assumptions C13_centre_pixel_colour_class_partial.

(* per shape: the whole pixel is inside the outline of a dark cell as soon as h <= clearance s *)
Theorem C13_pixel_dark_shape_partial : forall s (a b h : Q) x y X Y,
  h <= clearance s -> in_pixel a b h (cell_cx x) (cell_cy y) -> in_pixel a b h X Y -> outline s x y X Y.
Proof. exact pixel_dark_shape. Qed.
Print Assumptions C13_pixel_dark_shape_partial.

(* sampling at the pixel centre only: 2 pixels per module are enough *)
Theorem C13_pixel_centre_colour_class_partial : forall s (dark : Z -> Z -> Prop) (a b h : Q) x y,
  0 <= h -> h <= 1#2 -> in_pixel a b h (cell_cx x) (cell_cy y) ->
  (covered s dark (a + h * (1#2)) (b + h * (1#2)) <-> dark x y).
Proof. exact pixel_centre_colour_class. Qed.
Print Assumptions C13_pixel_centre_colour_class_partial.

(* square shape, integer scale k >= 1 (P = k S, pixel size 1/k): every pixel (i, j) lies in the closed cell
   (floor(i/k), floor(j/k)); each of its interior points -- among them its centre ((i + 1/2)/k, (j + 1/2)/k) -- is
   strictly inside that cell and in no other cell's square, so it is painted iff that cell is dark *)
Theorem C13_integer_scale_pixel_size_partial : forall k S, pixel_size (k * S) S == 1 # k.
Proof. exact pixel_size_integer_scale. Qed.
Print Assumptions C13_integer_scale_pixel_size_partial.

Theorem C13_square_pixel_in_cell_partial : forall k i j X Y,
  in_pixel (zq i * (1 # k)) (zq j * (1 # k)) (1 # k) X Y -> square_outline (i / Zpos k) (j / Zpos k) X Y.
Proof. exact square_pixel_in_cell. Qed.
Print Assumptions C13_square_pixel_in_cell_partial.

Theorem C13_square_pixel_cell_partial : forall k i j X Y,
  in_pixel_interior (zq i * (1 # k)) (zq j * (1 # k)) (1 # k) X Y ->
  (zq (i / Zpos k) < X /\ X < zq (i / Zpos k) + 1 /\ zq (j / Zpos k) < Y /\ Y < zq (j / Zpos k) + 1) /\
  (forall x' y', square_outline x' y' X Y -> x' = (i / Zpos k)%Z /\ y' = (j / Zpos k)%Z).
Proof. exact square_pixel_cell. Qed.
Print Assumptions C13_square_pixel_cell_partial.

Theorem C13_square_pixel_centre_cell_partial : forall k i j,
  let X := zq i * (1 # k) + (1 # k) * (1#2) in
  let Y := zq j * (1 # k) + (1 # k) * (1#2) in
  (zq (i / Zpos k) < X /\ X < zq (i / Zpos k) + 1 /\ zq (j / Zpos k) < Y /\ Y < zq (j / Zpos k) + 1) /\
  (forall x' y', square_outline x' y' X Y -> x' = (i / Zpos k)%Z /\ y' = (j / Zpos k)%Z).
Proof. exact square_pixel_centre_cell. Qed.
Print Assumptions C13_square_pixel_centre_cell_partial.

Theorem C13_square_pixel_colour_class_partial : forall (dark : Z -> Z -> Prop) k i j X Y,
  in_pixel_interior (zq i * (1 # k)) (zq j * (1 # k)) (1 # k) X Y ->
  (covered Square dark X Y <-> dark (i / Zpos k)%Z (j / Zpos k)%Z).
Proof. exact square_pixel_colour_class. Qed.
Print Assumptions C13_square_pixel_colour_class_partial.

(* the dark cells of the document of a matrix: module (row, col) at cell (col + margin, row + margin); a cell is dark
   iff it is inside the symbol and its module is dark -- so light modules and quiet-zone cells are not painted *)
Theorem C13_doc_dark_partial : forall c n m x y,
  doc_dark c n m x y <->
  (Z.of_N (c_margin c) <= x < Z.of_N (c_margin c) + Z.of_nat n /\
   Z.of_N (c_margin c) <= y < Z.of_N (c_margin c) + Z.of_nat n /\
   snd (qget m (Z.to_nat (y - Z.of_N (c_margin c))) (Z.to_nat (x - Z.of_N (c_margin c)))) = true)%Z.
Proof. exact doc_dark_iff. Qed.
Print Assumptions C13_doc_dark_partial.

Theorem C13_quiet_zone_not_dark_partial : forall c n m x y,
  (x < Z.of_N (c_margin c) \/ Z.of_N (c_margin c) + Z.of_nat n <= x \/
   y < Z.of_N (c_margin c) \/ Z.of_N (c_margin c) + Z.of_nat n <= y)%Z -> ~ doc_dark c n m x y.
Proof. exact quiet_zone_not_dark. Qed.
Print Assumptions C13_quiet_zone_not_dark_partial.

(* (d) to_bytes = encode_png (to_pixmap), to_file = save_png (to_pixmap): by construction (image.rs l.190-203); the
   PNG round trip is runtime assumption R4. *)
