(* C01 -- Every symbol built decodes back to exactly the input bytes. *)
From Coq Require Import NArith List Bool Arith Lia.
From FQ Require Import Lib.Mat Model.Types Model.Hardcode Model.Qr Spec.Iso Proofs.BuildMatrix Proofs.Readout Proofs.Decode.
Import ListNotations.

(* For every byte string, every combination of forced / automatic mode, level, version and mask for which a QR code is
   returned: the ISO reference decoder (size -> version; format word at the ISO positions, exact BCH look-up; Table 10
   un-masking over the region map; zig-zag codeword read-out; Table 9 de-interleaving; 7.4 segment parsing) applied to the
   module VALUES of the returned matrix yields the reported version, level and mask and exactly one segment: the reported
   mode with the input bytes, in order. No bound on the payload length; all 40 x 4 x 8 configurations. *)
Theorem C01_decode_build : forall input o q,
  options_wf o -> Forall (fun b => (b < 256)%N) input -> build input o = Ok q ->
  iso_decode (vals (q_mat q)) =
  Some {| d_version := q_version q; d_level := ecl_idx (q_ecl q); d_mask := q_mask q;
          d_segments := [(mode_idx (q_mode q), input)] |}.
Proof. exact built_decodes. Qed.
Print Assumptions C01_decode_build.

(* non-vacuity: the ISO Annex I example "01234567" at 1-M builds as version 1; a 2953-byte payload fills version 40-L *)
Example C01_builds_exist :
  (match build [48;49;50;51;52;53;54;55]%N {| o_mode := None; o_ecl := Some EM; o_version := None; o_mask := None |}
   with Ok q => q_version q | _ => 99 end) = 0 /\
  (match build (repeat 200%N 2953) {| o_mode := None; o_ecl := Some EL; o_version := None; o_mask := Some 2 |}
   with Ok q => q_version q | _ => 99 end) = 39.
Proof. vm_compute. auto. Qed.
