(* C10 -- Building is total: Ok or a documented Err, never a panic or overflow. *)
From Coq Require Import NArith List Bool Arith Lia.
From FQ Require Import Generated.Tables Model.Types Model.Hardcode Model.Compact Model.Encode Model.Qr Spec.Iso
  Model.Default Model.Masking Model.Score Proofs.Tables Proofs.GeomSafe Proofs.BuildMatrix Proofs.Decode Proofs.PushBits Proofs.EncodeIso Proofs.Select Proofs.ScoreSafe.
Import ListNotations.

(* The model makes every Rust panic site explicit: Panic 1 alphabet assertion, 2 usize underflow in add_terminator, 3 u8 `+=`
   carry / KEEP_LAST index in push_bits, 4 any index, slice range, subtraction or debug assertion that depends only on
   (version, level, mask). For every byte string with automatic mode, and for every forced mode whose alphabet contains
   the input, under every option combination: the result is Ok or one of the two documented errors. *)
Theorem C10_build_total : forall input o, options_wf o -> Forall (fun b => (b < 256)%N) input ->
  (match o_mode o with Some fm => alphabet_ok fm input = true | None => True end) ->
  (exists q, build input o = Ok q) \/ build input o = ErrEncodedData \/ build input o = ErrSpecifiedVersion.
Proof. exact build_total. Qed.
Print Assumptions C10_build_total.

(* configuration-level checks (every coordinate in range, buffer bounds 255 / 5430 / 8*max_bytes, subtraction underflows,
   the debug assertion on the data-module count) hold for all 40 x 4 configurations *)
Theorem C10_config_safe : forall v e, v < 40 -> config_safe v e = true.
Proof. exact config_safe_all. Qed.
Print Assumptions C10_config_safe.

(* inside encode: no push_bits call (header, groups, terminator, padding) and not fill hits a debug-build panic *)
Theorem C10_bit_buffer_never_panics : forall m e v input,
  v < 40 -> Forall (fun b => (b < 256)%N) input ->
  iso_fits (mode_idx m) (ecl_idx e) (N.of_nat (length input)) v = true ->
  let c1 := encode_segment (from_version v) m input (cci_bits v m) in
  Inv c1 /\ bits_of c1 = iso_segment_bits (mode_idx m) v input /\
  add_terminator_panics c1 (data_bits v e) = false /\
  Inv (encode input e m v) /\
  length (cdata (encode input e m v)) = N.to_nat (max_bytes v * 8) /\
  firstn (iso_data_codewords v (ecl_idx e)) (cdata (encode input e m v)) = iso_codewords (mode_idx m) v (ecl_idx e) input /\
  Forall no_panic (segment_pushes (from_version v) m input (cci_bits v m)) /\
  push_bits_panics c1 0 (N.min (data_bits v e - clen c1) terminator_max) = false /\
  push_bits_panics (add_terminator c1 (data_bits v e)) 0 ((8 - clen (add_terminator c1 (data_bits v e)) mod 8) mod 8) = false /\
  fill_panics (pad_to_8 (add_terminator c1 (data_bits v e))) = false.
Proof. exact encode_is_iso_strong. Qed.
Print Assumptions C10_bit_buffer_never_panics.

(* scoring of every candidate of the selection loop: the PERCENT_SCORE look-up is in bounds (there is always a light
   module) and the u32 score cannot overflow *)
Theorem C10_scoring_never_panics : forall v bytes j, v < 40 ->
  let n := version_size v in
  let cand := apply_mask n (placed_matrix v bytes) j in
  dark_panics n cand = false /\ (score n cand (transpose n cand) < 4294967295)%N.
Proof. exact candidates_score_safely. Qed.
Print Assumptions C10_scoring_never_panics.

(* the predicate can say Panic: a forced Numeric mode on letters is a panic in the model as in the code *)
Example C10_negative_control : build [49; 50; 97; 52]%N {| o_mode := Some Numeric; o_ecl := None; o_version := None; o_mask := None |} = Panic 1.
Proof. vm_compute. reflexivity. Qed.
