(* C19 -- File output is all-or-error.
   PARTIAL by nature: proved relative to a file-system oracle (Section variables of Model/File.v with the stated
   hypotheses about std::fs, all discharged as explicit premises below -- no axioms); the operating system itself is
   exercised by the `file` correspondence stream (fault classes at create time and at write time). *)
From Coq Require Import NArith List Bool.
From FQ Require Import Model.File.
Import ListNotations.

Theorem C19_svg_ok_means_written : forall (path handle fs : Type)
  (create : fs -> path -> fs * fres handle) (write_all : fs -> handle -> list N -> fs * fres unit)
  (content : fs -> path -> option (list N)) (handle_path : handle -> path),
  (forall s p s' h, create s p = (s', FOk h) -> handle_path h = p /\ content s' p = Some []) ->
  (forall s h bytes s', content s (handle_path h) = Some [] -> write_all s h bytes = (s', FOk tt) -> content s' (handle_path h) = Some bytes) ->
  forall s p rendering s', svg_to_file path handle fs create write_all s p rendering = (s', FOk tt) -> content s' p = Some rendering.
Proof. exact svg_to_file_all_or_error. Qed.
Print Assumptions C19_svg_ok_means_written.

Theorem C19_svg_error_propagates : forall (path handle fs : Type)
  (create : fs -> path -> fs * fres handle) (write_all : fs -> handle -> list N -> fs * fres unit) s p rendering,
  (forall s1 c, create s p = (s1, FErr c) -> svg_to_file path handle fs create write_all s p rendering = (s1, FErr c)) /\
  (forall s1 h s2 c, create s p = (s1, FOk h) -> write_all s1 h rendering = (s2, FErr c) ->
     svg_to_file path handle fs create write_all s p rendering = (s2, FErr c)).
Proof. exact svg_to_file_error_propagates. Qed.
Print Assumptions C19_svg_error_propagates.

Theorem C19_png_ok_means_written : forall (path fs : Type) (fs_write : fs -> path -> list N -> fs * fres unit)
  (content : fs -> path -> option (list N)),
  (forall s p bytes s', fs_write s p bytes = (s', FOk tt) -> content s' p = Some bytes) ->
  forall s p bytes s', png_to_file path fs fs_write s p (FOk bytes) = (s', FOk tt) -> content s' p = Some bytes.
Proof. exact png_to_file_all_or_error. Qed.
Print Assumptions C19_png_ok_means_written.

Theorem C19_png_error_propagates : forall (path fs : Type) (fs_write : fs -> path -> list N -> fs * fres unit) s p,
  (forall c, png_to_file path fs fs_write s p (FErr c) = (s, FErr c)) /\
  (forall bytes s1 c, fs_write s p bytes = (s1, FErr c) -> png_to_file path fs fs_write s p (FOk bytes) = (s1, FErr c)).
Proof. exact png_to_file_error_propagates. Qed.
Print Assumptions C19_png_error_propagates.
