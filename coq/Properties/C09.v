(* C09 -- Automatic mode is the most compact mode that can represent the input. *)
From Coq Require Import NArith List Bool Arith.
From FQ Require Import Proofs.PropLemmasBuild Model.Types Model.Encode Model.Qr Spec.Iso Spec.Oracles Proofs.BestEncoding Proofs.Build.
Import ListNotations.

Theorem C09_best_encoding_spec : forall input, best_encoding input = mode_of_idx (oracle_mode input).
Proof. exact best_encoding_spec_all. Qed.
Print Assumptions C09_best_encoding_spec.

Theorem C09_numeric_iff : forall input, best_encoding input = Numeric <-> all_digits input.
Proof. exact best_encoding_numeric_iff. Qed.
Print Assumptions C09_numeric_iff.

Theorem C09_alphanumeric_iff : forall input, best_encoding input = Alphanumeric <-> all_alnum input /\ ~ all_digits input.
Proof. exact best_encoding_alphanumeric_iff. Qed.
Print Assumptions C09_alphanumeric_iff.

Theorem C09_byte_iff : forall input, best_encoding input = Byte <-> ~ all_alnum input.
Proof. exact best_encoding_byte_iff. Qed.
Print Assumptions C09_byte_iff.

(* the chosen mode never rejects a character of the input, and no admissible mode is more compact *)
Theorem C09_accepts : forall input, alphabet_ok (best_encoding input) input = true.
Proof. exact best_encoding_accepts_all. Qed.
Print Assumptions C09_accepts.

Theorem C09_minimal : forall input m, alphabet_ok m input = true -> mode_idx (best_encoding input) <= mode_idx m.
Proof. exact best_encoding_minimal. Qed.
Print Assumptions C09_minimal.

(* the alphanumeric table is ISO Table 5, for every byte *)
Theorem C09_table5 : forall c, ascii_to_alphanumeric c = option_map N.of_nat (iso_alnum_value c).
Proof. exact ascii_to_alphanumeric_iso. Qed.
Print Assumptions C09_table5.

(* with no mode forced, build uses best_encoding *)
Theorem C09_build_uses_it : forall input o q, o_mode o = None -> build input o = Ok q -> q_mode q = best_encoding input.
Proof. exact build_uses_it_c09. Qed.
Print Assumptions C09_build_uses_it.

Example C09_examples : best_encoding [] = Numeric /\ best_encoding [49; 50]%N = Numeric
  /\ best_encoding [49; 65]%N = Alphanumeric /\ best_encoding [49; 97]%N = Byte.
Proof. vm_compute. auto. Qed.
