(* C06 -- Data codewords follow the ISO bit-stream encoding bit for bit. *)
From Coq Require Import NArith List Bool Arith Lia.
From FQ Require Import Model.Types Model.Hardcode Model.Compact Model.Encode Spec.Iso Proofs.Tables Proofs.PushBits Proofs.EncodeIso.
Import ListNotations.

(* the byte-level buffer implements bit-list append, for every buffer state, value and width up to 64 *)
Theorem C06_push_bits_spec : forall c x w, Inv c -> (w <= 64)%N -> (clen c + w < 8 * N.of_nat (length (cdata c)))%N ->
  Inv (push_bits c x w) /\ bits_of (push_bits c x w) = bits_of c ++ be_bits (N.to_nat w) x
  /\ length (cdata (push_bits c x w)) = length (cdata c) /\ push_bits_panics c x w = false.
Proof. exact push_bits_spec. Qed.
Print Assumptions C06_push_bits_spec.

(* for every payload of every length that fits: the first D bytes of encode's buffer (D = Table 9 data codewords; the only
   ones structure() consumes) are the ISO 7.4 codewords: mode indicator, Table 3 count field, 10/7/4-bit digit groups,
   11/6-bit alphanumeric groups or 8-bit bytes, terminator of min(4, remaining) zeros, zero fill to the byte boundary,
   pad codewords 236, 17 alternating from 236 *)
Theorem C06_encode_is_iso : forall m e v input,
  v < 40 -> alphabet_ok m input = true -> Forall (fun b => (b < 256)%N) input ->
  iso_fits (mode_idx m) (ecl_idx e) (N.of_nat (length input)) v = true ->
  (N.of_nat (length input) < 2 ^ N.of_nat (iso_cci (mode_idx m) v))%N ->
  encode_panic input e m v = None /\
  firstn (iso_data_codewords v (ecl_idx e)) (cdata (encode input e m v)) = iso_codewords (mode_idx m) v (ecl_idx e) input.
Proof. exact encode_is_iso. Qed.
Print Assumptions C06_encode_is_iso.

(* Table 3 and Table 9 quantities used above equal the code's tables (120 and 160 cases) *)
Theorem C06_cci_is_table3 : forall m v, v < 40 -> N.to_nat (cci_bits v m) = iso_cci (mode_idx m) v.
Proof. exact cci_is_table3. Qed.
Print Assumptions C06_cci_is_table3.

Theorem C06_keep_last_is_ones : forall k, (k <= 64)%N -> keep_last k = N.ones k.
Proof. exact keep_last_is_ones. Qed.
Print Assumptions C06_keep_last_is_ones.
