(* C03 -- Function patterns and symbol geometry are exact for all 40 versions.
   Only property theorems here, each closed by [exact]/[apply] of a lemma, with Print Assumptions. *)
From Coq Require Import NArith List Bool Arith Lia.
From FQ Require Import Proofs.PropLemmas Lib.Mat Model.Types Model.Hardcode Model.Default Model.Qr Spec.Iso Spec.Oracles
  Proofs.Tables Proofs.Geometry Proofs.GeomSafe Proofs.Build Proofs.BuildMatrix Proofs.Regions.
Import ListNotations.

(* for every payload, every option combination: the side is 17 + 4 * version and every finder, separator, timing,
   alignment (Annex E centres by the closed formula) and dark-module cell has its ISO value *)
Theorem C03_function_patterns : forall input o q, options_wf o -> build input o = Ok q ->
  q_size q = iso_size (q_version q) /\
  forall r c b, r < q_size q -> c < q_size q ->
    region_value (iso_region (q_version q) r c) = Some b -> snd (qget (q_mat q) r c) = b.
Proof. exact function_patterns_c03. Qed.
Print Assumptions C03_function_patterns.

(* the blank symbol (values and labels) is the ISO region map for all 40 versions -- the kernel check behind it *)
Theorem C03_blank_is_iso : forall v, v < 40 -> blank_ok v = true.
Proof. exact blank_is_iso. Qed.
Print Assumptions C03_blank_is_iso.

(* the alignment centres in the code's table are the Annex E closed formula *)
Theorem C03_alignment_is_annex_e : forall v, v < 40 -> map N.to_nat (alignment_grid v) = iso_align_centres v.
Proof. exact alignment_is_annex_e. Qed.
Print Assumptions C03_alignment_is_annex_e.

(* nothing outside the square: every coordinate any stage writes is inside size x size (with all other index and
   subtraction checks of the configuration), for all 40 versions *)
Theorem C03_writes_inside_square : forall v, v < 40 -> geom_safe v = true.
Proof. exact geom_safe_all. Qed.
Print Assumptions C03_writes_inside_square.

(* the matrix of a built symbol is a size x size square *)
Theorem C03_matrix_is_square : forall input o q, options_wf o -> build input o = Ok q -> wf (q_size q) (q_mat q).
Proof. exact matrix_is_square_c03. Qed.
Print Assumptions C03_matrix_is_square.
