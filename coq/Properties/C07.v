(* C07 -- EC codewords are the true GF(256) polynomial remainder for any block content. *)
From Coq Require Import NArith List Bool Arith Lia.
From FQ Require Import Model.Types Model.Hardcode Model.Poly Spec.Iso Spec.Gf Proofs.Tables Proofs.GfField Proofs.Division Proofs.Syndromes.
Import ListNotations.

(* for ANY block content (leading / interior zeros included) and any generator given by alpha exponents < 255:
   the log-domain division with its skip-zero branch = schoolbook remainder of data(x) * x^ec by the generator, over
   GF(2^8) / 0x11D with table-free multiplication *)
Theorem C07_division_is_remainder : forall data gen,
  Forall (fun x => (x < 255)%N) (tl gen) -> Forall (fun b => (b < 256)%N) data ->
  division_ec data gen = poly_rem data (map LOG gen).
Proof. exact division_is_remainder_gen. Qed.
Print Assumptions C07_division_is_remainder.

(* the remainder really is one: data * x^ec = q * g + r *)
Theorem C07_remainder_identity : forall data g gt, g = 1%N :: gt ->
  Forall (fun b => (b < 256)%N) data -> Forall (fun b => (b < 256)%N) gt ->
  exists q, length q = length data /\ length (poly_rem data g) = length gt /\
    data ++ zeros (length gt) = xorl (pmul q g) (zeros (length data) ++ poly_rem data g).
Proof. exact poly_rem_spec. Qed.
Print Assumptions C07_remainder_identity.

(* the generator selected for (version, level) is prod_{i < ec} (x - alpha^i) with ec the Table 9 value, all 160 pairs *)
Theorem C07_generators_are_rs : forall v e, v < 40 ->
  map LOG (get_polynomial v e) = rs_generator (iso_ec v (ecl_idx e)).
Proof. exact generators_are_rs. Qed.
Print Assumptions C07_generators_are_rs.

Theorem C07_degree_is_table9 : forall v e, v < 40 -> length (get_polynomial v e) = iso_ec v (ecl_idx e) + 1.
Proof. exact degree_is_table9. Qed.
Print Assumptions C07_degree_is_table9.

Theorem C07_ec_is_rs_remainder : forall v e data, v < 40 -> Forall (fun b => (b < 256)%N) data ->
  division_ec data (get_polynomial v e) = poly_rem data (rs_generator (iso_ec v (ecl_idx e))).
Proof. exact ec_is_rs_remainder. Qed.
Print Assumptions C07_ec_is_rs_remainder.

(* GF(256) multiplication used in the statements is the field multiplication: tables agree with shift-and-xor *)
Theorem C07_tables_are_field : forall a b, (0 < a < 256)%N -> (0 < b < 256)%N ->
  gf_mul a b = LOG ((ANTILOG a + ANTILOG b) mod 255).
Proof. exact gf_mul_log. Qed.
Print Assumptions C07_tables_are_field.

Example C07_example : division_ec [0; 0; 5; 0; 7]%N (get_polynomial 0 EL) = poly_rem [0; 0; 5; 0; 7]%N (rs_generator 7).
Proof. vm_compute. reflexivity. Qed.
