(* C12 -- the SVG text is well-formed XML and draws exactly the dark modules.
   This file contains only the property theorems, each closed by [exact <lemma>], with Print Assumptions.
   Scope: the six built-in shapes, colours given as RGBA byte quadruples, an optional image string that is valid
   UTF-8 made of XML characters (cfg_ok); any matrix, any size, any margin, any number of layers, any frame overrides.
   Outside: colours given as strings, Shape::Command closures. *)
From Coq Require Import String Ascii NArith ZArith List Bool Arith.
From FQ Require Import Lib.ListX Lib.Mat Model.Types Model.Svg Spec.Xml Spec.SvgDoc
  Proofs.XmlRoundTrip Proofs.SvgShape Proofs.SvgWellFormed Proofs.SvgReadBack.
Import ListNotations.
Local Open Scope N_scope.

(* (1) the strict recogniser accepts the text and reads it as the expected document: svg element with viewBox
   "0 0 S S", S = size + 2 margin; first child a rect of S px by S px in the background colour; one path per layer in
   order (stroke attributes only for rounded squares; fill = layer colour or module colour); when an image is set, the
   frame rect and exactly one image element whose href, with the references replaced, is the given string *)
Theorem C12_well_formed : forall c n m,
  cfg_ok c = true -> xml_parse (to_str c n m) = Some (expected_doc c n m).
Proof. exact svg_well_formed. Qed.
Print Assumptions C12_well_formed.

(* (2) escaping: reading back the escaped text gives the original string, for EVERY byte string; the escaped text
   contains no double quote, '<' or '>' *)
Theorem C12_unescape_escape : forall s, unescape (escape_attribute s) = Some s.
Proof. exact unescape_escape. Qed.
Print Assumptions C12_unescape_escape.

Theorem C12_escape_safe : forall c s, (c = 34 \/ c = 60 \/ c = 62) -> has c (escape_attribute s) = false.
Proof. exact escape_has. Qed.
Print Assumptions C12_escape_safe.

(* (3) a path's d attribute, split at 'M', has exactly one sub-path per dark module, in row-major order ... *)
Theorem C12_subpaths : forall c s n m,
  subpaths (path_d c s n m) = map (module_subpath c s) (dark n m).
Proof. exact path_subpaths. Qed.
Print Assumptions C12_subpaths.

(* ... each anchored at (column + margin, row + margin) ... *)
Theorem C12_anchors : forall c s n m,
  map (anchor s) (subpaths (path_d c s n m)) =
  map (fun p => Some (N.of_nat (snd p) + c_margin c, N.of_nat (fst p) + c_margin c)) (dark n m).
Proof. exact path_anchors. Qed.
Print Assumptions C12_anchors.

(* ... where the dark modules are the cells (row, column) inside the symbol whose value is dark (so none for light
   modules or the quiet zone) *)
Theorem C12_dark : forall n m r col,
  In (r, col) (dark n m) <-> (r < n)%nat /\ (col < n)%nat /\ snd (qget m r col) = true.
Proof. exact dark_spec. Qed.
Print Assumptions C12_dark.

(* (4) printed numbers and colours denote the values they were printed from *)
Theorem C12_number : forall n, dec_value (dec n) = n.
Proof. exact number_of_dec. Qed.
Print Assumptions C12_number.

Theorem C12_colour : forall x, rgba_ok x = true -> color_of_hex (rgba2hex x) = Some x.
Proof. exact color_of_rgba2hex. Qed.
Print Assumptions C12_colour.

(* (5) the recogniser is strict: the document produced WITHOUT escaping the href (the behaviour before the repair) is
   rejected, as are a duplicated attribute, a missing end tag and an invalid UTF-8 sequence *)
Example C12_rejects_raw_ampersand : xml_parse (bs "<svg><image href=""a&b"" /></svg>") = None.
Proof. vm_compute. reflexivity. Qed.
Example C12_rejects_raw_quote : xml_parse (bs "<svg><image href=""a""b"" /></svg>") = None.
Proof. vm_compute. reflexivity. Qed.
Example C12_rejects_raw_lt : xml_parse (bs "<svg><image href=""a<b"" /></svg>") = None.
Proof. vm_compute. reflexivity. Qed.
Example C12_rejects_duplicate : xml_parse (bs "<svg><rect x=""1"" x=""2""/></svg>") = None.
Proof. vm_compute. reflexivity. Qed.
Example C12_rejects_unclosed : xml_parse (bs "<svg><rect x=""1""/>") = None.
Proof. vm_compute. reflexivity. Qed.
Example C12_rejects_bad_utf8 : xml_parse (bs "<svg a=""" ++ [195] ++ bs """/>") = None.
Proof. vm_compute. reflexivity. Qed.
Example C12_accepts_escaped :
  xml_parse (bs "<svg><image href=""a&amp;b&#9;"" /></svg>")
  = Some (Elem (bs "svg") [] [Elem (bs "image") [(bs "href", bs "a&b" ++ [9])] []]).
Proof. vm_compute. reflexivity. Qed.
