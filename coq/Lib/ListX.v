(* List utilities shared by the model, the spec and the proofs. *)
From Coq Require Import NArith List Bool Arith Lia.
Import ListNotations.

Fixpoint upd {A} (l : list A) (i : nat) (x : A) : list A :=
  match l, i with
  | [], _ => []
  | _ :: t, O => x :: t
  | h :: t, S i' => h :: upd t i' x
  end.

Lemma upd_length {A} (l : list A) i x : length (upd l i x) = length l.
Proof. revert i; induction l as [|h t IH]; intros [|i]; cbn; auto. Qed.

Lemma nth_upd_same {A} (l : list A) i x d : i < length l -> nth i (upd l i x) d = x.
Proof. revert i; induction l as [|h t IH]; intros [|i] H; cbn in *; try lia; auto. apply IH; lia. Qed.

Lemma nth_upd_other {A} (l : list A) i j x d : i <> j -> nth j (upd l i x) d = nth j l d.
Proof. revert i j; induction l as [|h t IH]; intros [|i] [|j] H; cbn; auto; try lia. Qed.

Lemma upd_oob {A} (l : list A) i x : length l <= i -> upd l i x = l.
Proof. revert i; induction l as [|h t IH]; intros [|i] H; cbn in *; auto; try lia. f_equal; apply IH; lia. Qed.

(* N-indexed access into N lists (tables, byte buffers); default 0 *)
Definition nthN (l : list N) (i : nat) : N := nth i l 0%N.
Definition getN (l : list N) (i : N) : N := nth (N.to_nat i) l 0%N.

(* every k-th element starting with the first: Rust's Iterator::step_by *)
Fixpoint step_by_aux {A} (k : nat) (skip : nat) (l : list A) : list A :=
  match l with
  | [] => []
  | x :: t => match skip with
              | O => x :: step_by_aux k (k - 1) t
              | S s => step_by_aux k s t
              end
  end.
Definition step_by {A} (k : nat) (l : list A) : list A := step_by_aux k 0 l.

(* a..b exclusive *)
Definition range (a b : nat) : list nat := seq a (b - a).

(* split a list into chunks of n (last chunk may be short); fuel = length *)
Fixpoint chunks_aux {A} (fuel n : nat) (l : list A) : list (list A) :=
  match fuel with
  | O => []
  | S f => match l with
           | [] => []
           | _ => firstn n l :: chunks_aux f n (skipn n l)
           end
  end.
Definition chunks {A} (n : nat) (l : list A) : list (list A) := chunks_aux (length l) n l.

Fixpoint list_eqb {A} (eqb : A -> A -> bool) (a b : list A) : bool :=
  match a, b with
  | [], [] => true
  | x :: a', y :: b' => eqb x y && list_eqb eqb a' b'
  | _, _ => false
  end.

Lemma list_eqb_eq {A} (eqb : A -> A -> bool) :
  (forall x y, eqb x y = true -> x = y) -> forall a b, list_eqb eqb a b = true -> a = b.
Proof.
  intros H; induction a as [|x a IH]; intros [|y b]; cbn; try discriminate; auto.
  intros E; apply andb_prop in E as [E1 E2]. f_equal; auto.
Qed.

Fixpoint sumN (l : list N) : N := match l with [] => 0%N | x :: t => (x + sumN t)%N end.

Fixpoint find_index {A} (p : A -> bool) (l : list A) : option nat :=
  match l with
  | [] => None
  | x :: t => if p x then Some O else option_map S (find_index p t)
  end.
