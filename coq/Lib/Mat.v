(* Square matrices as lists of rows, with get/set lemmas. *)
From Coq Require Import NArith List Bool Arith Lia.
From FQ Require Import Lib.ListX.
Import ListNotations.

Section M.
Context {A : Type} (d : A).
Definition matrix := list (list A).
Definition mget (m : matrix) (r c : nat) : A := nth c (nth r m []) d.
Definition mset (m : matrix) (r c : nat) (x : A) : matrix := upd m r (upd (nth r m []) c x).
Definition wf (n : nat) (m : matrix) := length m = n /\ Forall (fun row => length row = n) m.
Definition mconst (n : nat) (x : A) : matrix := repeat (repeat x n) n.

Lemma mconst_wf n x : wf n (mconst n x).
Proof.
  split; unfold mconst. apply repeat_length.
  apply Forall_forall. intros row H. apply repeat_spec in H. subst. apply repeat_length.
Qed.

Lemma nth_repeat_lt {B} (x dflt : B) n i : i < n -> nth i (repeat x n) dflt = x.
Proof. revert i; induction n as [|n IH]; intros [|i] H; cbn; try lia; auto. apply IH; lia. Qed.

Lemma mconst_get n x r c : r < n -> c < n -> mget (mconst n x) r c = x.
Proof.
  intros Hr Hc. unfold mget, mconst. rewrite (nth_repeat_lt (repeat x n) [] n r Hr).
  now apply nth_repeat_lt.
Qed.

Lemma wf_row n m r : wf n m -> r < n -> length (nth r m []) = n.
Proof. intros [Hl Hf] Hr. rewrite Forall_forall in Hf. apply Hf, nth_In; lia. Qed.

Lemma mset_wf n m r c x : wf n m -> wf n (mset m r c x).
Proof.
  intros [Hl Hf]; split; unfold mset. now rewrite upd_length.
  rewrite Forall_forall in *. intros row Hin.
  apply In_nth with (d := []) in Hin as [k [Hk <-]]. rewrite upd_length in Hk.
  destruct (Nat.eq_dec r k) as [->|Hne].
  - rewrite nth_upd_same by lia. rewrite upd_length. apply Hf, nth_In; lia.
  - rewrite nth_upd_other by lia. apply Hf, nth_In; lia.
Qed.

Lemma mget_mset_same n m r c x : wf n m -> r < n -> c < n -> mget (mset m r c x) r c = x.
Proof.
  intros H Hr Hc. unfold mget, mset. pose proof (wf_row n m r H Hr) as Hrow. destruct H as [Hl Hf].
  rewrite nth_upd_same by lia. apply nth_upd_same. lia.
Qed.

Lemma mget_mset_other m r c r' c' x : (r, c) <> (r', c') -> mget (mset m r c x) r' c' = mget m r' c'.
Proof.
  intros H. unfold mget, mset. destruct (Nat.eq_dec r r') as [->|Hr].
  - destruct (Nat.lt_ge_cases r' (length m)).
    + rewrite nth_upd_same by lia. apply nth_upd_other. congruence.
    + rewrite upd_oob by lia. reflexivity.
  - now rewrite nth_upd_other.
Qed.

(* setting outside the square changes nothing *)
Lemma mset_oob n m r c x : wf n m -> (n <= r \/ n <= c) -> mset m r c x = m.
Proof.
  intros [Hl Hf] H. unfold mset. destruct (Nat.lt_ge_cases r n) as [Hr|Hr].
  - destruct H as [H|H]; [lia|].
    rewrite (upd_oob (nth r m [])).
    + clear H. subst n. revert r Hr. clear Hf. induction m as [|h t IH]; intros [|r] Hr; cbn in *; try lia; auto.
      f_equal. apply IH. lia.
    + rewrite Forall_forall in Hf. rewrite (Hf (nth r m [])); [lia|]. apply nth_In; lia.
  - apply upd_oob. lia.
Qed.
End M.

Definition coord_eqb (p q : nat * nat) := (fst p =? fst q) && (snd p =? snd q).
Lemma coord_eqb_spec p q : reflect (p = q) (coord_eqb p q).
Proof.
  destruct p as [a b], q as [c e]; unfold coord_eqb; cbn.
  destruct (Nat.eqb_spec a c), (Nat.eqb_spec b e); constructor; congruence.
Qed.
Definition in_sq (n : nat) (p : nat * nat) := fst p < n /\ snd p < n.
Definition in_sqb (n : nat) (p : nat * nat) := (fst p <? n) && (snd p <? n).
Lemma in_sqb_spec n p : in_sqb n p = true <-> in_sq n p.
Proof. unfold in_sqb, in_sq. rewrite andb_true_iff, !Nat.ltb_lt. tauto. Qed.
