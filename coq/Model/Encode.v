(* encode.rs: mode classifier, segment packers, terminator, padding. *)
From Coq Require Import NArith List Bool Arith.
From FQ Require Import Lib.ListX Generated.Tables Model.Types Model.Hardcode Model.Compact.
Import ListNotations.
Local Open Scope N_scope.

Definition is_ascii_digit (c : N) : bool := (48 <=? c) && (c <=? 57).
Definition in_range (c : N) (r : N * N) : bool := (fst r <=? c) && (c <=? snd r).
Definition is_qr_alphanumeric (c : N) : bool := existsb (in_range c) is_alnum_ranges.

(* best_encoding: the two nested scans as written; the alphanumeric scan restarts at index i (= 0) *)
Fixpoint try_alnum (l : list N) : mode :=
  match l with
  | [] => Alphanumeric
  | c :: t => if is_qr_alphanumeric c then try_alnum t else Byte
  end.
Fixpoint try_numeric (whole l : list N) : mode :=
  match l with
  | [] => Numeric
  | c :: t => if is_ascii_digit c then try_numeric whole t else try_alnum whole
  end.
Definition best_encoding (input : list N) : mode := try_numeric input input.

(* ascii_to_digit asserts is_ascii_digit; ascii_to_alphanumeric panics on the `_` arm *)
Definition ascii_to_digit (c : N) : N := c - 48.
Definition alnum_arm_matches (c : N) (a : N * N * N * N) : bool :=
  let '(lo, hi, _, _) := a in (lo <=? c) && (c <=? hi).
Definition ascii_to_alphanumeric (c : N) : option N :=
  match find (alnum_arm_matches c) alnum_arms with
  | Some (_, _, sub, add) => Some (c - sub + add)
  | None => None
  end.
Definition alnum_val (c : N) : N := match ascii_to_alphanumeric c with Some x => x | None => 0 end.

Definition alphabet_ok (m : mode) (input : list N) : bool :=
  match m with
  | Numeric => forallb is_ascii_digit input
  | Alphanumeric => forallb (fun c => match ascii_to_alphanumeric c with Some _ => true | None => false end) input
  | Byte => true
  end.

Definition mode_indicator (m : mode) : N * N := nth (mode_idx m) mode_indicators_tbl (0, 0).
Definition W_SINGLE := nthN numeric_widths_tbl 0.
Definition W_DOUBLE := nthN numeric_widths_tbl 1.
Definition W_TRIPLE := nthN numeric_widths_tbl 2.
Definition W_PAIR := nthN alnum_widths_tbl 0.
Definition W_LAST := nthN alnum_widths_tbl 1.

(* the numeric loop: triples while i < len - len % 3, then the 1- or 2-digit tail *)
Fixpoint numeric_groups (c : cq) (l : list N) : cq :=
  match l with
  | a :: b :: d :: t =>
      numeric_groups (push_bits c (ascii_to_digit a * nthN numeric_weights_tbl 0
                                   + ascii_to_digit b * nthN numeric_weights_tbl 1 + ascii_to_digit d) W_TRIPLE) t
  | [a; b] => push_bits c (ascii_to_digit a * 10 + ascii_to_digit b) W_DOUBLE
  | [a] => push_bits c (ascii_to_digit a) W_SINGLE
  | [] => c
  end.

Fixpoint alnum_groups (c : cq) (l : list N) : cq :=
  match l with
  | a :: b :: t => alnum_groups (push_bits c (alnum_val a * alnum_mul + alnum_val b) W_PAIR) t
  | [a] => push_bits c (alnum_val a) W_LAST
  | [] => c
  end.

Definition encode_header (c : cq) (m : mode) (n cci : N) : cq :=
  push_bits (push_bits c (fst (mode_indicator m)) (snd (mode_indicator m))) n cci.

Definition encode_segment (c : cq) (m : mode) (input : list N) (cci : N) : cq :=
  let h := encode_header c m (N.of_nat (length input)) cci in
  match m with
  | Numeric => numeric_groups h input
  | Alphanumeric => alnum_groups h input
  | Byte => push_u8_slice h input
  end.

Definition add_terminator (c : cq) (data_bits : N) : cq :=
  push_bits c 0 (N.min (data_bits - clen c) terminator_max).
Definition add_terminator_panics (c : cq) (data_bits : N) : bool := data_bits <? clen c.

Definition pad_to_8 (c : cq) : cq := push_bits c 0 ((8 - clen c mod 8) mod 8).

Definition encode (input : list N) (e : ecl) (m : mode) (v : nat) : cq :=
  let c := encode_segment (from_version v) m input (cci_bits v m) in
  fill (pad_to_8 (add_terminator c (data_bits v e))).

(* payload-dependent panic conditions of encode (alphabet assertion; terminator underflow) *)
Definition encode_panic (input : list N) (e : ecl) (m : mode) (v : nat) : option N :=
  if negb (alphabet_ok m input) then Some 1
  else if add_terminator_panics (encode_segment (from_version v) m input (cci_bits v m)) (data_bits v e) then Some 2
  else None.
