(* datamasking.rs: the eight sweeps as written, as coordinate lists; every visit toggles a Data module. *)
From Coq Require Import NArith List Bool Arith.
From FQ Require Import Lib.ListX Lib.Mat Generated.Tables Model.Types.
Import ListNotations.

Definition toggle_at (m : qmat) (p : nat * nat) : qmat :=
  let x := qget m (fst p) (snd p) in
  if is_data x then qset m (fst p) (snd p) (cell_toggle x) else m.

Definition offsets_nat (l : list (N * N)) : list (nat * nat) := map (fun p => (N.to_nat (fst p), N.to_nat (snd p))) l.

Definition mask0_coords (n : nat) : list (nat * nat) :=
  flat_map (fun row => map (fun c => (row, c)) (step_by 2 (range (row mod 2) n))) (seq 0 n).
Definition mask1_coords (n : nat) : list (nat * nat) :=
  flat_map (fun row => map (fun c => (row, c)) (seq 0 n)) (step_by 2 (seq 0 n)).
Definition mask2_coords (n : nat) : list (nat * nat) :=
  flat_map (fun row => map (fun c => (row, c)) (step_by 3 (seq 0 n))) (seq 0 n).
Definition mask3_coords (n : nat) : list (nat * nat) :=
  flat_map (fun row => map (fun c => (row, c)) (step_by 3 (range ((3 - row mod 3) mod 3) n))) (seq 0 n).
Definition mask4_coords (n : nat) : list (nat * nat) :=
  flat_map (fun row =>
    flat_map (fun column => map (fun i => (row, i)) (range column (Nat.min n (column + 3))))
             (step_by 6 (range (((row / 2) mod 2) * 3) n))) (seq 0 n).
Definition mask56_coords (n : nat) (offsets : list (nat * nat)) : list (nat * nat) :=
  flat_map (fun row =>
    flat_map (fun column =>
      (row, column) :: (if negb (row mod 6 =? 0) || negb (column mod 6 =? 0) then [(column, row)] else []))
      (seq 0 n)) (step_by 6 (seq 0 n))
  ++ flat_map (fun row =>
       flat_map (fun column =>
         flat_map (fun o : nat * nat =>
           if (n <=? row + fst o) || (n <=? column + snd o) then [] else [(row + fst o, column + snd o)]) offsets)
         (step_by 6 (seq 0 n))) (step_by 6 (seq 0 n)).
(* the skip condition of mask 7, evaluated over binary numbers *)
Definition mask7_skip (row column : nat) : bool :=
  let r := N.of_nat row in let c := N.of_nat column in
  negb ((((r + c) mod 2) + ((r * c) mod 3)) mod 2 =? 0)%N.
Definition mask7_coords (n : nat) : list (nat * nat) :=
  flat_map (fun row =>
    flat_map (fun column =>
      if mask7_skip row column then []
      else (row, column) :: (if negb (column =? row) then [(column, row)] else []))
      (range row n)) (seq 0 n).

Definition mask_coords (n : nat) (mask : nat) : list (nat * nat) :=
  match mask with
  | 0 => mask0_coords n
  | 1 => mask1_coords n
  | 2 => mask2_coords n
  | 3 => mask3_coords n
  | 4 => mask4_coords n
  | 5 => mask56_coords n (offsets_nat mask5_offsets)
  | 6 => mask56_coords n (offsets_nat mask6_offsets)
  | _ => mask7_coords n
  end.

Definition apply_mask (n : nat) (m : qmat) (mask : nat) : qmat := fold_left toggle_at (mask_coords n mask) m.
