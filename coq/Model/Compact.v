(* compact.rs: the bit buffer, at byte level as in the code. Arithmetic is the release-mode
   (wrapping / truncating) semantics; the conditions under which a debug build panics are the
   separate predicates [*_panics]. *)
From Coq Require Import NArith List Bool Arith.
From FQ Require Import Lib.ListX Generated.Tables Model.Types Model.Hardcode.
Import ListNotations.
Local Open Scope N_scope.

Record cq := { clen : N; cdata : list N }.

Definition dlen (c : cq) : N := N.of_nat (length (cdata c)).
Definition to_u8 (x : N) : N := x mod 256.

Definition set_at (d : list N) (i : N) (y : N) : list N := upd d (N.to_nat i) y.
Definition or_at (d : list N) (i : N) (y : N) : list N := upd d (N.to_nat i) (N.lor (getN d i) y).
(* u8 `+=`: wraps in release, panics in debug when the sum exceeds 255 *)
Definition add_at (d : list N) (i : N) (y : N) : list N := upd d (N.to_nat i) (to_u8 (getN d i + y)).

Definition from_version (v : nat) : cq :=
  {| clen := 0; cdata := repeat 0 (N.to_nat (max_bytes v * compact_alloc_mul)) |}.

(* length l <= k, without computing the length of a long buffer *)
Fixpoint len_le (l : list N) (k : nat) : bool :=
  match l, k with
  | [], _ => true
  | _ :: _, O => false
  | _ :: t, S k' => len_le t k'
  end.

Definition increase_len (c : cq) (data_length : N) : cq :=
  if len_le (cdata c) (N.to_nat (data_length / 8))
  then {| clen := clen c; cdata := cdata c ++ repeat 0 (N.to_nat (data_length / 8 + 1 - dlen c)) |}
  else c.

Definition push_u8 (c0 : cq) (bits : N) : cq :=
  let c := increase_len c0 (clen c0 + 8) in
  let right := clen c mod 8 in
  let first := clen c / 8 in
  let d :=
    if right =? 0 then set_at (cdata c) first bits
    else
      let left := 8 - right in
      or_at (or_at (cdata c) first (N.land (N.shiftr bits right) (to_u8 (keep_last left))))
            (first + 1) (to_u8 (N.shiftl (N.land bits (to_u8 (keep_last right))) left)) in
  {| clen := clen c + 8; cdata := d |}.

Definition push_u8_slice (c0 : cq) (s : list N) : cq :=
  fold_left push_u8 s (increase_len c0 (clen c0 + 8 * N.of_nat (length s))).

(* the whole-byte loop of push_bits: i = l, l-8, ... while i >= 8 *)
Fixpoint push_bytes_loop (fuel : nat) (c : cq) (bits i : N) : cq :=
  match fuel with
  | O => c
  | S f => if 8 <=? i then push_bytes_loop f (push_u8 c (to_u8 (N.shiftr bits (i - 8)))) bits (i - 8) else c
  end.

Definition push_bits (c0 : cq) (bits0 len : N) : cq :=
  let c := increase_len c0 (clen c0 + len) in
  let bits := N.land bits0 (keep_last len) in
  let rem_space := (8 - clen c mod 8) mod 8 in
  let first := clen c / 8 in
  if len <? rem_space then
    {| clen := clen c + len; cdata := or_at (cdata c) first (to_u8 (N.shiftl bits (rem_space - len))) |}
  else
    let c1 := if rem_space =? 0 then c
              else {| clen := clen c + rem_space;
                      cdata := or_at (cdata c) first (to_u8 (N.land (N.shiftr bits (len - rem_space)) (keep_last rem_space))) |} in
    let l := len - rem_space in
    let c2 := push_bytes_loop (S (N.to_nat (l / 8))) c1 bits l in
    let remaining := l mod 8 in
    if remaining =? 0 then c2
    else {| clen := clen c2 + remaining;
            cdata := add_at (cdata c2) (clen c2 / 8) (to_u8 (N.shiftl (to_u8 (N.land bits (keep_last remaining))) (8 - remaining))) |}.

(* debug-build panic conditions of push_bits: KEEP_LAST index out of range, u8 += carry *)
Definition push_bits_panics (c0 : cq) (bits0 len : N) : bool :=
  if N.of_nat (length keep_last_tbl) <=? len then true else
  let c := increase_len c0 (clen c0 + len) in
  let bits := N.land bits0 (keep_last len) in
  let rem_space := (8 - clen c mod 8) mod 8 in
  if len <? rem_space then false else
    let c1 := if rem_space =? 0 then c
              else {| clen := clen c + rem_space; cdata := cdata c |} in
    let l := len - rem_space in
    let c2 := push_bytes_loop (S (N.to_nat (l / 8))) c1 bits l in
    let remaining := l mod 8 in
    if remaining =? 0 then false
    else 255 <? getN (cdata c2) (clen c2 / 8) + to_u8 (N.shiftl (to_u8 (N.land bits (keep_last remaining))) (8 - remaining)).

(* fill: for (i, _) in (len .. data.len()).step_by(8).enumerate() { push_u8(PAD[i % 2]) } *)
Fixpoint fill_loop (n : nat) (i : N) (c : cq) : cq :=
  match n with
  | O => c
  | S n' => fill_loop n' (i + 1) (push_u8 c (getN pad_bytes_tbl (i mod 2)))
  end.
Definition fill_count (c : cq) : nat := N.to_nat ((dlen c - clen c + 7) / 8).
Definition fill (c : cq) : cq := fill_loop (fill_count c) 0 c.
(* debug assertion of fill *)
Definition fill_panics (c : cq) : bool := negb (clen c mod 8 =? 0).

Definition from_array (d : list N) (len : N) : cq := {| clen := len; cdata := d |}.
