(* score.rs: the penalty scanners, as written (one-pass line scanner with its counters, the 2x2 scanner with its
   shift buffer and data counter, the dark-module percentage look-up). *)
From Coq Require Import NArith List Bool Arith.
From FQ Require Import Lib.ListX Lib.Mat Generated.Tables Model.Types Model.Hardcode.
Import ListNotations.
Local Open Scope N_scope.

Definition b2n (b : bool) : N := if b then 1 else 0.

Record lstate := { ls_line : N; ls_patt : N; ls_count : N; ls_current : bool; ls_buffer : N; ls_cdata : N }.

Definition line_step (s : lstate) (item : cell) : lstate :=
  let v := snd item in
  let buffer := N.land (N.lor (N.shiftl (ls_buffer s) 1) (b2n v)) 127 in
  let cdata := ls_cdata s + 1 in
  (* if item.value() != current *)
  let '(ls1, count1, current1) :=
    if Bool.eqb v (ls_current s) then (ls_line s, ls_count s, ls_current s)
    else ((if 5 <=? ls_count s then ls_line s + (ls_count s - 2) else ls_line s), 0, v) in
  if negb (is_data item) then
    {| ls_line := (if 5 <=? count1 then ls1 + (count1 - 2) else ls1); ls_patt := ls_patt s;
       ls_count := 0; ls_current := current1; ls_buffer := buffer; ls_cdata := 0 |}
  else
    {| ls_line := ls1;
       ls_patt := (if (7 <=? cdata) && (buffer =? 93) then ls_patt s + 40 else ls_patt s);
       ls_count := count1 + 1; ls_current := current1; ls_buffer := buffer; ls_cdata := cdata |}.

(* line(l) = (patt_score, line_score); l must be non-empty (line[0]) *)
Definition line (l : list cell) : N * N :=
  let init := {| ls_line := 0; ls_patt := 0; ls_count := 1; ls_current := negb (snd (hd dflt_cell l));
                 ls_buffer := 0; ls_cdata := 0 |} in
  let s := fold_left line_step l init in
  (ls_patt s, if 5 <=? ls_count s then ls_line s + (ls_count s - 2) else ls_line s).

(* matrix_score_squares: per pair of rows, shift buffer of the last two columns *)
Definition sq_step (st : N * N * N) (p : cell * cell) : N * N * N :=
  let '(score, buffer, cdata) := st in
  let '(a, b) := p in
  let buffer := N.lor (N.lor (N.shiftr buffer 2) (N.shiftl (b2n (snd a)) 2)) (N.shiftl (b2n (snd b)) 3) in
  let cdata := if negb (is_data a) || negb (is_data b) then 0 else cdata in
  let score := if (2 <=? cdata) && ((buffer =? 15) || (buffer =? 0)) then score + 3 else score in
  (score, buffer, cdata + 1).

Definition sq_rows (l1 l2 : list cell) : N :=
  match l1, l2 with
  | a :: t1, b :: t2 =>
      let buffer0 := N.lor (N.shiftl (b2n (snd a)) 2) (N.shiftl (b2n (snd b)) 3) in
      let '(score, _, _) := fold_left sq_step (combine t1 t2) (0, buffer0, 2) in score
  | _, _ => 0
  end.

Fixpoint squares (rows : list (list cell)) : N :=
  match rows with
  | l1 :: ((l2 :: _) as t) => sq_rows l1 l2 + squares t
  | _ => 0
  end.

Definition count_dark (m : qmat) : N :=
  fold_left (fun acc row => fold_left (fun a (x : cell) => if snd x then a + 1 else a) row acc) m 0.

Definition dark_score (n : nat) (m : qmat) : N :=
  let nn := N.of_nat n * N.of_nat n in
  percent_score ((count_dark m * 100) / nn).
(* PERCENT_SCORE[percent] is in bounds iff percent < 100 *)
Definition dark_panics (n : nat) (m : qmat) : bool :=
  let nn := N.of_nat n * N.of_nat n in
  (nn =? 0) || (N.of_nat (length percent_score_tbl) <=? (count_dark m * 100) / nn).

Definition lines_score (m : qmat) : N * N :=
  fold_left (fun acc row => let '(p, l) := line row in (fst acc + p, snd acc + l)) m (0, 0).

(* score(qr, transpose) = line + patt + col + dark + squares *)
Definition score (n : nat) (m mt : qmat) : N :=
  let '(p1, l1) := lines_score m in
  let '(p2, l2) := lines_score mt in
  l1 + (p1 + p2) + l2 + dark_score n m + squares m.
