(* to_file of SvgBuilder and ImageBuilder against a file-system oracle. The oracle's operations are Section variables
   (not axioms); what is assumed about std::fs is exactly the two hypotheses below. *)
From Coq Require Import NArith List Bool.
Import ListNotations.

Inductive fres (A : Type) := FOk (a : A) | FErr (code : N).
Arguments FOk {A} a.
Arguments FErr {A} code.

Section FS.
Variable path : Type.
Variable handle : Type.
Variable fs : Type.                                            (* the state of the file system *)
Variable create : fs -> path -> fs * fres handle.              (* File::create *)
Variable write_all : fs -> handle -> list N -> fs * fres unit.  (* Write::write_all *)
Variable fs_write : fs -> path -> list N -> fs * fres unit.     (* std::fs::write, used by tiny-skia's save_png *)
Variable content : fs -> path -> option (list N).
Variable handle_path : handle -> path.

(* assumed behaviour of std::fs: an Ok from write_all on a freshly created (truncated) file, or from fs::write, means the
   file holds exactly those bytes *)
Hypothesis create_ok : forall s p s' h, create s p = (s', FOk h) -> handle_path h = p /\ content s' p = Some [].
Hypothesis write_all_ok : forall s h bytes s', content s (handle_path h) = Some [] ->
  write_all s h bytes = (s', FOk tt) -> content s' (handle_path h) = Some bytes.
Hypothesis fs_write_ok : forall s p bytes s', fs_write s p bytes = (s', FOk tt) -> content s' p = Some bytes.

(* SvgBuilder::to_file: let out = to_str(); File::create(file).map_err(IoError)?; f.write_all(out).map_err(IoError)?; Ok(()) *)
Definition svg_to_file (s : fs) (p : path) (rendering : list N) : fs * fres unit :=
  match create s p with
  | (s1, FErr c) => (s1, FErr c)
  | (s1, FOk h) =>
      match write_all s1 h rendering with
      | (s2, FErr c) => (s2, FErr c)
      | (s2, FOk _) => (s2, FOk tt)
      end
  end.

(* ImageBuilder::to_file: to_pixmap().save_png(file).map_err(..): encode_png, then std::fs::write *)
Definition png_to_file (s : fs) (p : path) (encoded : fres (list N)) : fs * fres unit :=
  match encoded with
  | FErr c => (s, FErr c)
  | FOk bytes => fs_write s p bytes
  end.

Theorem svg_to_file_all_or_error s p rendering s' :
  svg_to_file s p rendering = (s', FOk tt) -> content s' p = Some rendering.
Proof.
  unfold svg_to_file. destruct (create s p) as [s1 [h|c]] eqn:EC; [|discriminate].
  destruct (write_all s1 h rendering) as [s2 [u|c]] eqn:EW; [|discriminate].
  intros H. inversion H; subst. destruct (create_ok _ _ _ _ EC) as [Hp Hc]. rewrite <- Hp.
  destruct u. apply (write_all_ok s1); [now rewrite Hp | exact EW].
Qed.

Theorem svg_to_file_error_propagates s p rendering :
  (forall s1 c, create s p = (s1, FErr c) -> svg_to_file s p rendering = (s1, FErr c)) /\
  (forall s1 h s2 c, create s p = (s1, FOk h) -> write_all s1 h rendering = (s2, FErr c) -> svg_to_file s p rendering = (s2, FErr c)).
Proof.
  unfold svg_to_file. split.
  - intros s1 c E. now rewrite E.
  - intros s1 h s2 c E1 E2. now rewrite E1, E2.
Qed.

Theorem png_to_file_all_or_error s p bytes s' :
  png_to_file s p (FOk bytes) = (s', FOk tt) -> content s' p = Some bytes.
Proof. unfold png_to_file. apply fs_write_ok. Qed.

Theorem png_to_file_error_propagates s p :
  (forall c, png_to_file s p (FErr c) = (s, FErr c)) /\
  (forall bytes s1 c, fs_write s p bytes = (s1, FErr c) -> png_to_file s p (FOk bytes) = (s1, FErr c)).
Proof. unfold png_to_file. split; auto. Qed.
End FS.
