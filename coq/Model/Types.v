(* Basic types of the model: levels, modes, results, cells. *)
From Coq Require Import NArith List Bool Arith.
From FQ Require Import Lib.ListX Lib.Mat.
Import ListNotations.

Inductive ecl := EL | EM | EQ | EH.
Inductive mode := Numeric | Alphanumeric | Byte.

Definition ecl_idx (e : ecl) : nat := match e with EL => 0 | EM => 1 | EQ => 2 | EH => 3 end.
Definition mode_idx (m : mode) : nat := match m with Numeric => 0 | Alphanumeric => 1 | Byte => 2 end.
Definition ecl_of_idx (n : nat) : ecl := match n with 0 => EL | 1 => EM | 2 => EQ | _ => EH end.
Definition mode_of_idx (n : nat) : mode := match n with 0 => Numeric | 1 => Alphanumeric | _ => Byte end.
Definition all_ecl : list ecl := [EL; EM; EQ; EH].
Definition all_modes : list mode := [Numeric; Alphanumeric; Byte].
Definition all_versions : list nat := seq 0 40.   (* version index: V01 = 0 ... V40 = 39 *)
Definition all_masks : list nat := seq 0 8.

Definition ecl_eqb (a b : ecl) : bool := Nat.eqb (ecl_idx a) (ecl_idx b).
Definition mode_eqb (a b : mode) : bool := Nat.eqb (mode_idx a) (mode_idx b).

(* What a Rust call can do: return a value, return one of the two documented errors, or panic.
   Panic codes: 1 alphabet assertion (ascii_to_digit / ascii_to_alphanumeric), 2 usize underflow in
   add_terminator, 3 u8 `+=` carry or KEEP_LAST index in push_bits, 4 configuration-level check failed
   (an index, slice range, subtraction or debug assertion that depends only on version/level/mask),
   5 unwrap / explicit panic in the wasm or colour glue. *)
Inductive result (A : Type) :=
| Ok (a : A)
| ErrEncodedData
| ErrSpecifiedVersion
| Panic (code : N).
Arguments Ok {A} a.
Arguments ErrEncodedData {A}.
Arguments ErrSpecifiedVersion {A}.
Arguments Panic {A} code.

(* A module: (type code 0..7, value). The Rust byte is value | type << 1. *)
Definition cell := (N * bool)%type.
Definition T_DATA : N := 0.
Definition T_FINDER : N := 1.
Definition T_ALIGN : N := 2.
Definition T_TIMING : N := 3.
Definition T_FORMAT : N := 4.
Definition T_VERSION : N := 5.
Definition T_DARK : N := 6.
Definition T_EMPTY : N := 7.
Definition dflt_cell : cell := (T_DATA, false).
Definition cell_byte (x : cell) : N := (2 * fst x + (if snd x then 1 else 0))%N.
Definition is_data (x : cell) : bool := N.eqb (fst x) T_DATA.
Definition cell_set (x : cell) (b : bool) : cell := (fst x, b).
Definition cell_toggle (x : cell) : cell := (fst x, negb (snd x)).
Definition cell_eqb (a b : cell) : bool := N.eqb (fst a) (fst b) && Bool.eqb (snd a) (snd b).

Definition qmat := @matrix cell.
Definition qget (m : qmat) (r c : nat) : cell := mget dflt_cell m r c.
Definition qset (m : qmat) (r c : nat) (x : cell) : qmat := mset m r c x.

(* The QR code value returned by a build *)
Record qrcode := {
  q_size : nat;
  q_mat : qmat;
  q_version : nat;
  q_ecl : ecl;
  q_mask : nat;
  q_mode : mode;
}.
