(* default.rs: the blank symbol (function patterns, reserved areas), transpose, format information. *)
From Coq Require Import NArith List Bool Arith.
From FQ Require Import Lib.ListX Lib.Mat Generated.Tables Model.Types Model.Hardcode.
Import ListNotations.

Definition write := (nat * nat * cell)%type.
Definition apply_write (m : qmat) (w : write) : qmat := let '(r, c, x) := w in qset m r c x.
Definition apply_writes (m : qmat) (ws : list write) : qmat := fold_left apply_write ws m.

Definition mk (t : N) (b : bool) : cell := (t, b).
Definition DARK := true.
Definition LIGHT := false.

Definition psize : nat := N.to_nat position_size.

Definition finder_writes (n : nat) : list write :=
  flat_map (fun o : nat * nat =>
    let '(y, x) := o in
    flat_map (fun j => [(y, j + x, mk T_FINDER DARK); (6 + y, j + x, mk T_FINDER DARK);
                        (j + y, x, mk T_FINDER DARK); (j + y, 6 + x, mk T_FINDER DARK)]) (seq 0 7)
    ++ flat_map (fun j => [(y + 1, j + x, mk T_FINDER LIGHT); (5 + y, j + x, mk T_FINDER LIGHT);
                           (j + y, x + 1, mk T_FINDER LIGHT); (j + y, 5 + x, mk T_FINDER LIGHT)]) (seq 1 5)
    ++ flat_map (fun j => [(j + y, 2 + x, mk T_FINDER DARK); (j + y, 3 + x, mk T_FINDER DARK);
                           (j + y, 4 + x, mk T_FINDER DARK)]) (seq 2 3))
  [(0, 0); (n - psize, 0); (0, n - psize)].

Definition timing_writes (n : nat) : list write :=
  flat_map (fun i =>
    let value := Nat.eqb ((psize + 1) mod 2) (i mod 2) in
    [(psize - 1, i, mk T_TIMING value); (i, psize - 1, mk T_TIMING value)])
  (range (psize + 1) (n - psize)).

Definition dark_writes (n : nat) : list write := [(n - 8, 8, mk T_DARK DARK)].

Definition alignment_writes (v : nat) : list write :=
  if Nat.eqb v 0 then [] else
  let grid := map N.to_nat (alignment_grid v) in
  let mx := length grid - 1 in
  flat_map (fun iy : nat * nat =>
    let '(i, ay) := iy in
    flat_map (fun jx : nat * nat =>
      let '(j, ax) := jx in
      if (Nat.eqb i 0 && (Nat.eqb j mx || Nat.eqb j 0)) || (Nat.eqb i mx && Nat.eqb j 0) then []
      else
        (let y := ay - 2 in let x := ax - 2 in
         flat_map (fun o => [(y, x + o, mk T_ALIGN DARK); (y + 4, x + o, mk T_ALIGN DARK);
                             (y + o, x, mk T_ALIGN DARK); (y + o, x + 4, mk T_ALIGN DARK)]) (seq 0 5))
        ++ (let y := ay - 1 in let x := ax - 1 in
            flat_map (fun o => [(y, x + o, mk T_ALIGN LIGHT); (y + 2, x + o, mk T_ALIGN LIGHT);
                                (y + o, x, mk T_ALIGN LIGHT); (y + o, x + 2, mk T_ALIGN LIGHT)]) (seq 0 3))
        ++ [(ay, ax, mk T_ALIGN DARK)])
    (combine (seq 0 (length grid)) grid))
  (combine (seq 0 (length grid)) grid).

(* the subtractions `alignment_y - 2` etc. and `len() - 1` must not underflow *)
Definition alignment_panics (v : nat) : bool :=
  if Nat.eqb v 0 then false else
  let grid := alignment_grid v in
  (length grid =? 0)%nat || existsb (fun a => (a <? 2)%N) grid.

Definition version_writes (v n : nat) : list write :=
  if v <? 6 then [] else
  let info := version_information v in
  flat_map (fun i =>
    flat_map (fun j =>
      let value := N.testbit info (N.of_nat (j * 3 + i)) in
      [(j, n - 11 + i, mk T_VERSION value); (n - 11 + i, j, mk T_VERSION value)]) (seq 0 6))
  (seq 0 3).

Definition empty_writes (n : nat) : list write :=
  flat_map (fun i =>
    [(i, 7, mk T_EMPTY LIGHT); (7, i, mk T_EMPTY LIGHT);
     (n - 8 + i, 7, mk T_EMPTY LIGHT); (n - 8, i, mk T_EMPTY LIGHT);
     (i, n - 8, mk T_EMPTY LIGHT); (7, n - 8 + i, mk T_EMPTY LIGHT)]) (seq 0 8).

Definition format_reserve_writes (n : nat) : list write :=
  flat_map (fun i =>
    [(8, i, mk T_FORMAT LIGHT); (i, 8, mk T_FORMAT LIGHT);
     (8, n - 1 - i, mk T_FORMAT LIGHT); (n - 1 - i, 8, mk T_FORMAT LIGHT)]) (seq 0 6)
  ++ [(8, 7, mk T_FORMAT LIGHT); (8, 8, mk T_FORMAT LIGHT); (7, 8, mk T_FORMAT LIGHT);
      (8, n - 1 - 6, mk T_FORMAT LIGHT); (8, n - 1 - 7, mk T_FORMAT LIGHT);
      (n - 1 - 6, 8, mk T_FORMAT LIGHT)].

Definition blank_writes (v : nat) : list write :=
  let n := version_size v in
  finder_writes n ++ timing_writes n ++ dark_writes n ++ alignment_writes v
  ++ version_writes v n ++ empty_writes n ++ format_reserve_writes n.

Definition blank_init (n : nat) : qmat := mconst n dflt_cell.
Definition blank (v : nat) : qmat := apply_writes (blank_init (version_size v)) (blank_writes v).

(* transpose: clone, then for i, for j in i+1..n: t[i][j] = qr[j][i]; t[j][i] = qr[i][j] *)
Definition transpose_writes (n : nat) (m : qmat) : list write :=
  flat_map (fun i => flat_map (fun j => [(i, j, qget m j i); (j, i, qget m i j)]) (range (i + 1) n)) (seq 0 n).
Definition transpose (n : nat) (m : qmat) : qmat := apply_writes m (transpose_writes n m).

(* create_matrix_format_info *)
Definition format_writes (n : nat) (info : N) : list write :=
  let bit k := N.testbit info (N.of_nat k) in
  flat_map (fun i => [(8, 5 - i, mk T_FORMAT (bit (i + 9))); (n - 6 + i, 8, mk T_FORMAT (bit (i + 9)))]) (rev (seq 0 6))
  ++ flat_map (fun i => [(i, 8, mk T_FORMAT (bit i)); (8, n - i - 1, mk T_FORMAT (bit i))]) (seq 0 6)
  ++ [(8, 7, mk T_FORMAT (bit 8)); (n - 7, 8, mk T_FORMAT (bit 8));
      (8, 8, mk T_FORMAT (bit 7)); (8, n - 8, mk T_FORMAT (bit 7));
      (7, 8, mk T_FORMAT (bit 6)); (8, n - 7, mk T_FORMAT (bit 6))].
Definition place_format (n : nat) (m : qmat) (e : ecl) (mask : nat) : qmat :=
  apply_writes m (format_writes n (format_information e mask)).

Definition writes_in_range (n : nat) (ws : list write) : bool :=
  forallb (fun w : write => let '(r, c, _) := w in (r <? n) && (c <? n)) ws.
