(* helpers.rs: terminal rendering with half blocks. Characters are Unicode scalar values. *)
From Coq Require Import NArith List Bool Arith.
From FQ Require Import Lib.ListX Lib.Mat Generated.Tables Model.Types.
Import ListNotations.

Definition CH_EMPTY : N := nthN term_chars_tbl 0.
Definition CH_BLOCK : N := nthN term_chars_tbl 1.
Definition CH_TOP : N := nthN term_chars_tbl 2.
Definition CH_BOTTOM : N := nthN term_chars_tbl 3.
Definition CH_NL : N := 10%N.

Definition half_char (top bottom : bool) : N :=
  match top, bottom with
  | true, true => CH_EMPTY
  | true, false => CH_BOTTOM
  | false, true => CH_TOP
  | false, false => CH_BLOCK
  end.

(* print_line(line1, line2, size): for i in 0..size *)
Definition print_line (l1 l2 : list bool) (size : nat) : list N :=
  map (fun i => half_char (nth i l1 false) (nth i l2 false)) (seq 0 size).

Definition row_vals (m : qmat) (r : nat) : list bool := map snd (nth r m []).

(* rows 0,2,4,.. < size-1 paired with the next row *)
Definition print_matrix_with_margin (n : nat) (m : qmat) : list N :=
  [CH_BOTTOM] ++ print_line (repeat true 177) (repeat false 177) n ++ [CH_BOTTOM; CH_NL]
  ++ flat_map (fun i => [CH_BLOCK] ++ print_line (row_vals m i) (row_vals m (i + 1)) n ++ [CH_BLOCK; CH_NL])
              (step_by 2 (range 0 (n - 1)))
  ++ [CH_BLOCK] ++ print_line (row_vals m (n - 1)) (repeat false 177) n ++ [CH_BLOCK].
