(* qr.rs QRBuilder: setters and build as an operation sequence on a builder value. *)
From Coq Require Import NArith List Bool Arith.
From FQ Require Import Model.Types Model.Qr.
Import ListNotations.

Record builder := { b_input : list N; b_opts : options }.
Definition new_builder (input : list N) : builder := {| b_input := input; b_opts := no_options |}.

Inductive bop :=
| SetMode (m : mode) | SetEcl (e : ecl) | SetVersion (v : nat) | SetMask (k : nat)
| Build.

Definition set_opt (o : options) (op : bop) : options :=
  match op with
  | SetMode m => {| o_mode := Some m; o_ecl := o_ecl o; o_version := o_version o; o_mask := o_mask o |}
  | SetEcl e => {| o_mode := o_mode o; o_ecl := Some e; o_version := o_version o; o_mask := o_mask o |}
  | SetVersion v => {| o_mode := o_mode o; o_ecl := o_ecl o; o_version := Some v; o_mask := o_mask o |}
  | SetMask k => {| o_mode := o_mode o; o_ecl := o_ecl o; o_version := o_version o; o_mask := Some k |}
  | Build => o
  end.

(* one step: new builder state and, for Build, the output (build takes &self: the state is unchanged) *)
Definition bstep (b : builder) (op : bop) : builder * option (result qrcode) :=
  match op with
  | Build => (b, Some (build (b_input b) (b_opts b)))
  | _ => ({| b_input := b_input b; b_opts := set_opt (b_opts b) op |}, None)
  end.

(* a history: final state and the outputs of all Build operations, in order *)
Fixpoint run_history (b : builder) (ops : list bop) : builder * list (result qrcode) :=
  match ops with
  | [] => (b, [])
  | op :: t =>
      let '(b1, out) := bstep b op in
      let '(b2, outs) := run_history b1 t in
      (b2, match out with Some r => r :: outs | None => outs end)
  end.
