(* wasm.rs: bool_to_u8, qr, SvgOptions (new, color_to_code, the setters), qr_svg. The file is compiled for the host
   through the verification hook; the wasm32 target and the wasm-bindgen glue are not modelled.

   * Vec<u8> / Vec<f64> fields are lists; String arguments are byte lists (the model accepts any bytes, a Rust String is
     always valid UTF-8). f64 values are counts of hundredths, as in Model/Svg.v.
   * Results use Types.result: Panic 5 = the explicit panic!("Invalid color length") of `From<&[u8]> for Color`
     (the only panic site left in the glue; every index `v[0]`, `v[1]` is behind a `len() == 2` test, written here as a
     match on the list). Panics of QRCode::new itself (codes 1-4) are passed through.
   * usize arithmetic is unbounded (N), as in Model/Svg.v. *)
From Coq Require Import NArith ZArith List Bool Arith.
From FQ Require Import Lib.ListX Lib.Mat Generated.Tables Model.Types Model.Qr Model.Svg.
Import ListNotations.
Local Open Scope N_scope.

Record svg_options := {
  w_shape : shape;
  w_module_color : list N;
  w_margin : N;
  w_ecl : option ecl;
  w_version : option nat;               (* index 0..39 *)
  w_background_color : list N;
  w_image : list N;
  w_image_background_color : list N;
  w_image_background_shape : ishape;
  w_image_size : list Z;                (* hundredths *)
  w_image_position : list Z;            (* hundredths *)
}.

(* SvgOptions::new *)
Definition new_options : svg_options := {|
  w_shape := Square;
  w_module_color := [0; 0; 0; 255];
  w_margin := 4;
  w_ecl := None;
  w_version := None;
  w_background_color := [255; 255; 255; 255];
  w_image := [];
  w_image_background_color := [255; 255; 255; 255];
  w_image_background_shape := ISquare;
  w_image_size := [];
  w_image_position := [];
|}.

(* ---- color_to_code ---- *)
(* std::str::from_utf8 on a two-byte slice: two ASCII bytes, or one two-byte scalar (C2..DF, 80..BF) *)
Definition chunk_is_utf8 (a b : N) : bool :=
  ((a <? 128) && (b <? 128)) || ((194 <=? a) && (a <=? 223) && (128 <=? b) && (b <=? 191)).

(* char::to_digit(16) *)
Definition hex_digit_value (ch : N) : option N :=
  if (48 <=? ch) && (ch <=? 57) then Some (ch - 48)
  else if (97 <=? ch) && (ch <=? 102) then Some (ch - 87)
  else if (65 <=? ch) && (ch <=? 70) then Some (ch - 55)
  else None.

(* u8::from_str_radix(s, 16) for a two-byte s: a leading '+' is skipped (a leading '-' is not, u8 is unsigned, so it
   is an invalid digit); then every byte must be a hex digit; 0xff is the largest value, so there is no overflow *)
Definition u8_from_str_radix16 (a b : N) : option N :=
  if a =? 43 then hex_digit_value b
  else match hex_digit_value a, hex_digit_value b with
       | Some h, Some l => Some (16 * h + l)
       | _, _ => None
       end.

Definition parse_chunk (a b : N) : option N :=
  if chunk_is_utf8 a b then u8_from_str_radix16 a b else None.

(* chunks_exact(2).map(..).collect::<Option<Vec<u8>>>(): a trailing odd byte is ignored *)
Fixpoint parse_chunks (s : list N) : option (list N) :=
  match s with
  | a :: b :: t =>
      match parse_chunk a b, parse_chunks t with
      | Some x, Some r => Some (x :: r)
      | _, _ => None
      end
  | _ => Some []
  end.

Definition color_to_code (color : list N) : list N :=
  let color := match color with ch :: t => if ch =? 35 then t else color | [] => [] end in   (* one leading '#' *)
  let code := match parse_chunks color with Some l => l | None => [] end in                   (* unwrap_or_default *)
  if (length code =? 3)%nat then code ++ [255] else code.

(* ---- setters ---- *)
Definition with_shape (s : svg_options) (x : shape) : svg_options :=
  {| w_shape := x; w_module_color := w_module_color s; w_margin := w_margin s; w_ecl := w_ecl s; w_version := w_version s;
     w_background_color := w_background_color s; w_image := w_image s;
     w_image_background_color := w_image_background_color s; w_image_background_shape := w_image_background_shape s;
     w_image_size := w_image_size s; w_image_position := w_image_position s |}.
Definition with_module_color (s : svg_options) (x : list N) : svg_options :=
  {| w_shape := w_shape s; w_module_color := x; w_margin := w_margin s; w_ecl := w_ecl s; w_version := w_version s;
     w_background_color := w_background_color s; w_image := w_image s;
     w_image_background_color := w_image_background_color s; w_image_background_shape := w_image_background_shape s;
     w_image_size := w_image_size s; w_image_position := w_image_position s |}.
Definition with_margin (s : svg_options) (x : N) : svg_options :=
  {| w_shape := w_shape s; w_module_color := w_module_color s; w_margin := x; w_ecl := w_ecl s; w_version := w_version s;
     w_background_color := w_background_color s; w_image := w_image s;
     w_image_background_color := w_image_background_color s; w_image_background_shape := w_image_background_shape s;
     w_image_size := w_image_size s; w_image_position := w_image_position s |}.
Definition with_ecl (s : svg_options) (x : option ecl) : svg_options :=
  {| w_shape := w_shape s; w_module_color := w_module_color s; w_margin := w_margin s; w_ecl := x; w_version := w_version s;
     w_background_color := w_background_color s; w_image := w_image s;
     w_image_background_color := w_image_background_color s; w_image_background_shape := w_image_background_shape s;
     w_image_size := w_image_size s; w_image_position := w_image_position s |}.
Definition with_version (s : svg_options) (x : option nat) : svg_options :=
  {| w_shape := w_shape s; w_module_color := w_module_color s; w_margin := w_margin s; w_ecl := w_ecl s; w_version := x;
     w_background_color := w_background_color s; w_image := w_image s;
     w_image_background_color := w_image_background_color s; w_image_background_shape := w_image_background_shape s;
     w_image_size := w_image_size s; w_image_position := w_image_position s |}.
Definition with_background_color (s : svg_options) (x : list N) : svg_options :=
  {| w_shape := w_shape s; w_module_color := w_module_color s; w_margin := w_margin s; w_ecl := w_ecl s; w_version := w_version s;
     w_background_color := x; w_image := w_image s;
     w_image_background_color := w_image_background_color s; w_image_background_shape := w_image_background_shape s;
     w_image_size := w_image_size s; w_image_position := w_image_position s |}.
Definition with_image (s : svg_options) (x : list N) : svg_options :=
  {| w_shape := w_shape s; w_module_color := w_module_color s; w_margin := w_margin s; w_ecl := w_ecl s; w_version := w_version s;
     w_background_color := w_background_color s; w_image := x;
     w_image_background_color := w_image_background_color s; w_image_background_shape := w_image_background_shape s;
     w_image_size := w_image_size s; w_image_position := w_image_position s |}.
Definition with_image_background_color (s : svg_options) (x : list N) : svg_options :=
  {| w_shape := w_shape s; w_module_color := w_module_color s; w_margin := w_margin s; w_ecl := w_ecl s; w_version := w_version s;
     w_background_color := w_background_color s; w_image := w_image s;
     w_image_background_color := x; w_image_background_shape := w_image_background_shape s;
     w_image_size := w_image_size s; w_image_position := w_image_position s |}.
Definition with_image_background_shape (s : svg_options) (x : ishape) : svg_options :=
  {| w_shape := w_shape s; w_module_color := w_module_color s; w_margin := w_margin s; w_ecl := w_ecl s; w_version := w_version s;
     w_background_color := w_background_color s; w_image := w_image s;
     w_image_background_color := w_image_background_color s; w_image_background_shape := x;
     w_image_size := w_image_size s; w_image_position := w_image_position s |}.
Definition with_image_size (s : svg_options) (x : list Z) : svg_options :=
  {| w_shape := w_shape s; w_module_color := w_module_color s; w_margin := w_margin s; w_ecl := w_ecl s; w_version := w_version s;
     w_background_color := w_background_color s; w_image := w_image s;
     w_image_background_color := w_image_background_color s; w_image_background_shape := w_image_background_shape s;
     w_image_size := x; w_image_position := w_image_position s |}.
Definition with_image_position (s : svg_options) (x : list Z) : svg_options :=
  {| w_shape := w_shape s; w_module_color := w_module_color s; w_margin := w_margin s; w_ecl := w_ecl s; w_version := w_version s;
     w_background_color := w_background_color s; w_image := w_image s;
     w_image_background_color := w_image_background_color s; w_image_background_shape := w_image_background_shape s;
     w_image_size := w_image_size s; w_image_position := x |}.

(* the public setters of SvgOptions *)
Definition set_shape (s : svg_options) (x : shape) : svg_options := with_shape s x.
Definition set_module_color (s : svg_options) (color : list N) : svg_options :=
  let code := color_to_code color in
  if negb (length code =? 4)%nat then s else with_module_color s code.
Definition set_margin (s : svg_options) (m : N) : svg_options := with_margin s m.
Definition set_background_color (s : svg_options) (color : list N) : svg_options :=
  let code := color_to_code color in
  if negb (length code =? 4)%nat then s else with_background_color s code.
Definition set_image (s : svg_options) (img : list N) : svg_options := with_image s img.
Definition set_image_background_color (s : svg_options) (color : list N) : svg_options :=
  let code := color_to_code color in
  if negb (length code =? 4)%nat then s else with_image_background_color s code.
Definition set_image_background_shape (s : svg_options) (x : ishape) : svg_options := with_image_background_shape s x.
Definition set_image_size (s : svg_options) (size gap : Z) : svg_options := with_image_size s [size; gap].
Definition set_image_position (s : svg_options) (pos : list Z) : svg_options :=
  if negb (length pos =? 2)%nat then s else with_image_position s pos.
Definition set_ecl (s : svg_options) (e : ecl) : svg_options := with_ecl s (Some e).
Definition set_version (s : svg_options) (v : nat) : svg_options := with_version s (Some v).

(* ---- qr ---- *)
Definition qr_options (e : option ecl) (v : option nat) : options :=
  {| o_mode := None; o_ecl := e; o_version := v; o_mask := None |}.

(* bool_to_u8: the values of data[..size*size] *)
Definition bool_to_u8 (q : qrcode) : list N :=
  flat_map (fun r => map (fun c => if snd (qget (q_mat q) r c) then 1 else 0) (seq 0 (q_size q))) (seq 0 (q_size q)).

Definition qr_with (bld : list N -> options -> result qrcode) (content : list N) : result (list N) :=
  match bld content (qr_options None None) with
  | Ok q => Ok (bool_to_u8 q)
  | ErrEncodedData | ErrSpecifiedVersion => Ok []               (* unwrap_or(Vec::new()) *)
  | Panic c => Panic c
  end.

(* ---- qr_svg ---- *)
(* `impl From<Vec<u8>> for Color` -> `From<&[u8]>`: 3 or 4 components, otherwise panic!("Invalid color length") *)
Definition color_of_vec (v : list N) : result rgba :=
  match v with
  | [r; g; b] => Ok {| c_r := r; c_g := g; c_b := b; c_a := 255 |}
  | [r; g; b; a] => Ok {| c_r := r; c_g := g; c_b := b; c_a := a |}
  | _ => Panic 5
  end.

(* the builder calls of qr_svg, in the order of the Rust code *)
Definition builder_of (s : svg_options) : result cfg :=
  let b := Svg.default in
  let b := Svg.add_shape b (w_shape s) in
  let b := Svg.set_margin b (w_margin s) in
  match color_of_vec (w_background_color s) with
  | Ok bg =>
      let b := Svg.set_background_color b bg in
      match color_of_vec (w_module_color s) with
      | Ok fg =>
          let b := Svg.set_module_color b fg in
          let b := match w_image s with [] => b | img => Svg.set_image b img end in      (* if !image.is_empty() *)
          match color_of_vec (w_image_background_color s) with
          | Ok ibg =>
              let b := Svg.set_image_background_color b ibg in
              let b := Svg.set_image_background_shape b (w_image_background_shape s) in
              let b := match w_image_size s with                                          (* if len() == 2 *)
                       | [size; gap] => Svg.set_image_gap (Svg.set_image_size b size) gap
                       | _ => b
                       end in
              let b := match w_image_position s with                                      (* if len() == 2 *)
                       | [x; y] => Svg.set_image_position b x y
                       | _ => b
                       end in
              Ok b
          | _ => Panic 5
          end
      | _ => Panic 5
      end
  | _ => Panic 5
  end.

(* QRCode::new runs first; the builder is configured whether or not it succeeded *)
Definition qr_svg_with (bld : list N -> options -> result qrcode) (content : list N) (s : svg_options) : result (list N) :=
  match bld content (qr_options (w_ecl s) (w_version s)) with
  | Panic c => Panic c
  | r =>
      match builder_of s with
      | Ok b =>
          match r with
          | Ok q => Ok (Svg.to_str b (q_size q) (q_mat q))
          | _ => Ok []                                                                    (* unwrap_or(String::new()) *)
          end
      | _ => Panic 5
      end
  end.

Definition qr := qr_with Qr.build.
Definition qr_svg := qr_svg_with Qr.build.
(* what the extracted driver runs (equal to the above for versions < 40: Proofs/WasmSpec.v) *)
Definition qr_unchecked := qr_with Qr.build_unchecked.
Definition qr_svg_unchecked := qr_svg_with Qr.build_unchecked.
