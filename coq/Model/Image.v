(* convert/image.rs: ImageBuilder (default, the Builder setters, fit_width, fit_height) and the size arithmetic of
   to_pixmap (the choice of usvg::FitTo and `fit_to.fit_to(tree.size.to_screen_size())`).

   What the model covers, and how:
   * ImageBuilder is `{ fit_height, fit_width, svg_builder }` (image.rs l.39-43). Every method of `impl Builder for
     ImageBuilder` (l.79-139) calls the method of the same name on `self.svg_builder` and returns self; fit_height /
     fit_width (l.143-152) store `Some(value)` and touch nothing else. Colours, shapes and f64 arguments are modelled
     exactly as in Model/Svg.v (rgba quadruples, the six built-in shapes, hundredths).
   * to_pixmap (l.156-187):
        fit_to = match (fit_width, fit_height) { (Some w, Some h) => Size(w, h), (Some w, None) => Width(w),
                                                 (None, Some h) => Height(h), _ => Original }            (l.166-171)
        size   = fit_to.fit_to(tree.size.to_screen_size()).unwrap_or(tree.size.to_screen_size())        (l.173-175)
        pixmap = Pixmap::new(size.width(), size.height()).expect(..)                                    (l.176-177)
        resvg::render(&tree, fit_to, Transform::default(), pixmap.as_mut()).unwrap()                    (l.178-184)
     The document is `<svg viewBox="0 0 S S" ...>` without width / height attributes, S = size + 2 * margin
     (Svg.to_str); usvg gives such a tree the size (S, S): converter.rs l.171-186 (width and height default to 100% of
     the viewBox).
   * usvg 0.28.0 arithmetic that is mirrored here, with exact integers instead of f64 / u32:
       - Size::to_screen_size, geom.rs l.175-181:  (max(1, round(w) as u32), max(1, round(h) as u32));
         `round` is f64::round (half away from zero), `as u32` saturates at 2^32 - 1;
       - ScreenSize::new, geom.rs l.222-228: None unless both sides are > 0;
       - FitTo::fit_to, options.rs l.26-47:
            Original  => Some(size)
            Width(w)  => ScreenSize::new(w, ceil(w * h0 / w0) as u32)
            Height(h) => ScreenSize::new(ceil(h * w0 / h0) as u32, h)
            Size(w,h) => Some(sizef.scale_to(Size::new(w, h)?).to_screen_size())
         NOTE: Size(w, h) goes through the f64 `Size::scale_to` = size_scale_f64(.., expand = false), geom.rs l.310-323
         (rw = h * w0 / h0; if rw >= w then (w, w * h0 / w0) else (rw, h)) followed by to_screen_size (ROUND, not ceil);
         it is not ScreenSize::scale_to (geom.rs l.295-308, which uses ceil). `Size::new(w, h)?` is None when w = 0 or
         h = 0 (is_valid_length: > 0).
     Rounding relied upon: quotients are taken exactly (ceil a/b = (a + b - 1) / b, round a/b = (2a + b) / (2b) in N).
     The f64 evaluation agrees with this whenever the products w * h0, h * w0 are below 2^53 and the quotient is an
     integer; for the square S x S document of to_pixmap that is the case as soon as S * max(w, h) < 2^53 (then
     (w * S) / S = w exactly in f64).
   * fit_to = None (fit_width(0) or fit_height(0)): the pixmap is allocated at the original size, and then
     resvg::render, which starts with `let size = fit_to.fit_to(tree.size.to_screen_size())?` (resvg lib.rs l.89),
     returns None, so the `.unwrap()` at image.rs l.184 PANICS. [to_pixmap_panics] is that condition.
   Not modelled: Pixmap::new failing for huge sizes (the `expect("Failed to create pixmap")` panic), the rasteriser,
   the PNG encoder. to_bytes / to_file are `encode_png` / `save_png` of the pixmap returned by to_pixmap (l.190-203). *)
From Coq Require Import NArith ZArith List Bool.
From FQ Require Model.Svg.
Import ListNotations.
Local Open Scope N_scope.

Record image_builder := {
  fit_width : option N;      (* Option<u32> *)
  fit_height : option N;     (* Option<u32> *)
  svg : Svg.cfg;             (* svg_builder *)
}.

(* impl Default for ImageBuilder *)
Definition default : image_builder := {| fit_width := None; fit_height := None; svg := Svg.default |}.

(* ------------------------------------------------------------------------------------------------------------ *)
(* impl Builder for ImageBuilder: every method forwards to the inner builder                                     *)

Definition with_svg (b : image_builder) (c : Svg.cfg) : image_builder :=
  {| fit_width := fit_width b; fit_height := fit_height b; svg := c |}.

Definition set_margin (b : image_builder) (m : N) : image_builder := with_svg b (Svg.set_margin (svg b) m).
Definition set_module_color (b : image_builder) (x : Svg.rgba) : image_builder :=
  with_svg b (Svg.set_module_color (svg b) x).
Definition set_background_color (b : image_builder) (x : Svg.rgba) : image_builder :=
  with_svg b (Svg.set_background_color (svg b) x).
Definition add_shape (b : image_builder) (s : Svg.shape) : image_builder := with_svg b (Svg.add_shape (svg b) s).
Definition add_shape_color (b : image_builder) (s : Svg.shape) (x : Svg.rgba) : image_builder :=
  with_svg b (Svg.add_shape_color (svg b) s x).
Definition set_image (b : image_builder) (img : list N) : image_builder := with_svg b (Svg.set_image (svg b) img).
Definition set_image_background_color (b : image_builder) (x : Svg.rgba) : image_builder :=
  with_svg b (Svg.set_image_background_color (svg b) x).
Definition set_image_background_shape (b : image_builder) (s : Svg.ishape) : image_builder :=
  with_svg b (Svg.set_image_background_shape (svg b) s).
Definition set_image_size (b : image_builder) (h : Z) : image_builder := with_svg b (Svg.set_image_size (svg b) h).
Definition set_image_gap (b : image_builder) (h : Z) : image_builder := with_svg b (Svg.set_image_gap (svg b) h).
Definition set_image_position (b : image_builder) (x y : Z) : image_builder :=
  with_svg b (Svg.set_image_position (svg b) x y).

(* impl ImageBuilder: fit_height, fit_width *)
Definition set_fit_height (b : image_builder) (h : N) : image_builder :=
  {| fit_width := fit_width b; fit_height := Some h; svg := svg b |}.
Definition set_fit_width (b : image_builder) (w : N) : image_builder :=
  {| fit_width := Some w; fit_height := fit_height b; svg := svg b |}.

(* ------------------------------------------------------------------------------------------------------------ *)
(* usvg::FitTo and the size arithmetic                                                                           *)

Inductive fit := FitOriginal | FitWidth (w : N) | FitHeight (h : N) | FitSize (w h : N).

(* image.rs l.166-171 *)
Definition fit_request (b : image_builder) : fit :=
  match fit_width b, fit_height b with
  | Some w, Some h => FitSize w h
  | Some w, None => FitWidth w
  | None, Some h => FitHeight h
  | None, None => FitOriginal
  end.

Definition u32_max : N := 4294967295.
(* `x as u32` for a non-negative finite f64 with an integer value: saturating *)
Definition sat_u32 (n : N) : N := N.min n u32_max.
(* ceil (a / b) and round-half-up (a / b) of the exact quotient, b > 0 *)
Definition cdiv (a b : N) : N := (a + b - 1) / b.
Definition rdiv (a b : N) : N := (2 * a + b) / (2 * b).

(* ScreenSize::new *)
Definition screen_size_new (w h : N) : option (N * N) := if (0 <? w) && (0 <? h) then Some (w, h) else None.
(* one side of Size::to_screen_size for the value a / b *)
Definition to_screen (a b : N) : N := N.max 1 (sat_u32 (rdiv a b)).

(* FitTo::fit_to applied to the screen size (w0, h0), both > 0 *)
Definition fit_to_size (f : fit) (w0 h0 : N) : option (N * N) :=
  match f with
  | FitOriginal => Some (w0, h0)
  | FitWidth w => screen_size_new w (sat_u32 (cdiv (w * h0) w0))
  | FitHeight h => screen_size_new (sat_u32 (cdiv (h * w0) h0)) h
  | FitSize w h =>
      if (w =? 0) || (h =? 0) then None
      else if w * h0 <=? h * w0                                   (* rw = h * w0 / h0 >= w *)
           then Some (to_screen w 1, to_screen (w * h0) w0)       (* (w, w * h0 / w0) *)
           else Some (to_screen (h * w0) h0, to_screen h 1)       (* (rw, h) *)
  end.

(* tree.size.to_screen_size() for the S x S document *)
Definition doc_screen (S : N) : N := to_screen S 1.

(* (width, height) of the pixmap allocated by to_pixmap for a document of side S = size + 2 * margin *)
Definition pixmap_side (b : image_builder) (S : N) : N * N :=
  let s0 := doc_screen S in
  match fit_to_size (fit_request b) s0 s0 with
  | Some p => p
  | None => (s0, s0)
  end.

(* resvg::render(..) returns None and the unwrap at image.rs l.184 panics *)
Definition to_pixmap_panics (b : image_builder) (S : N) : bool :=
  let s0 := doc_screen S in
  match fit_to_size (fit_request b) s0 s0 with
  | Some _ => false
  | None => true
  end.
