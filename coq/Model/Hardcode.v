(* Accessors over the generated tables: version.rs and hardcode.rs. *)
From Coq Require Import NArith List Bool Arith.
From FQ Require Import Lib.ListX Generated.Tables Model.Types.
Import ListNotations.
Local Open Scope N_scope.

(* Version::get -- Rust `match len { lo..=hi => Some(V), ..., _ => None }`: first matching arm *)
Definition arm_matches (len : N) (a : N * N * N) : bool :=
  let '(lo, hi, _) := a in (lo <=? len) && (len <=? hi).
Definition version_get_arms_for (m : mode) (e : ecl) : list (N * N * N) :=
  nth (mode_idx m * 4 + ecl_idx e)%nat version_get_arms [].
Definition version_get (m : mode) (e : ecl) (len : N) : option nat :=
  match find (arm_matches len) (version_get_arms_for m e) with
  | Some (_, _, v) => Some (N.to_nat v)
  | None => None
  end.

Definition max_bytes (v : nat) : N := nthN max_bytes_tbl v.
Definition missing_bits (v : nat) : N := nthN missing_bits_tbl v.
Definition version_information (v : nat) : N := nthN version_information_tbl v.
Definition alignment_grid (v : nat) : list N := nth v alignment_tbl [].
Definition version_size (v : nat) : nat := N.to_nat (N.of_nat v * size_mul + size_add).

Definition ecc_groups (e : ecl) (v : nat) : N * N * N * N :=
  nth v (nth (ecl_idx e) ecc_groups_tbl []) (0, 0, 0, 0).
Definition format_information (e : ecl) (mask : nat) : N :=
  nthN (nth (ecl_idx e) format_info_tbl []) mask.
Definition data_codewords (v : nat) (e : ecl) : N :=
  nthN (nth (ecl_idx e) data_codewords_tbl []) v.
Definition data_bits (v : nat) (e : ecl) : N := data_codewords v e * data_bits_mul.

Definition cci_bits (v : nat) (m : mode) : N :=
  let '(guards, dflt) := nth (mode_idx m) cci_tbl ([], 0) in
  match find (fun g : N * N => fst g <=? N.of_nat v) guards with
  | Some g => snd g
  | None => dflt
  end.

Definition pair_in (v : nat) (e : ecl) (pat : list (N * N)) : bool :=
  existsb (fun p : N * N => (fst p =? N.of_nat v) && (snd p =? N.of_nat (ecl_idx e))) pat.
(* get_polynomial: first arm whose or-pattern contains (version, level); [] when none does
   (Rust's match is exhaustive; the finite check `polynomial_total` shows [] never occurs) *)
Definition get_polynomial (v : nat) (e : ecl) : list N :=
  match find (fun arm : list (N * N) * list N => pair_in v e (fst arm)) polynomial_arms with
  | Some arm => snd arm
  | None => []
  end.

Definition percent_score (p : N) : N := getN percent_score_tbl p.
Definition keep_last (k : N) : N := getN keep_last_tbl k.
