(* qr.rs: QRCode::new / QRBuilder::build, placement::create_matrix. *)
From Coq Require Import NArith List Bool Arith.
From FQ Require Import Lib.ListX Lib.Mat Generated.Tables Model.Types Model.Hardcode Model.Compact Model.Encode
  Model.Poly Model.Default Model.Masking Model.Score Model.Placement.
Import ListNotations.

Record options := {
  o_mode : option mode;
  o_ecl : option ecl;
  o_version : option nat;   (* index 0..39 *)
  o_mask : option nat;      (* 0..7 *)
}.
Definition no_options : options := {| o_mode := None; o_ecl := None; o_version := None; o_mask := None |}.

Definition default_level : ecl := ecl_of_idx (N.to_nat default_ecl).

(* configuration-level safety: every index, slice range, subtraction and debug assertion whose outcome depends only
   on (version, level, mask) -- checked for all configurations in Proofs/ConfigSafe.v *)
Definition geom_safe (v : nat) : bool :=
  let n := version_size v in
  negb (alignment_panics v)
  && writes_in_range n (blank_writes v)
  && writes_in_range n (format_writes n 0)
  && forallb (in_sqb n) (place_coords n)
  && forallb (fun x => 1 <=? x) (place_xs n)
  && (snd (place_data n (blank v) []) =? 8 * max_bytes v + missing_bits v)%N
  && forallb (fun mk => forallb (in_sqb n) (mask_coords n mk)) all_masks
  && (N.to_nat (max_bytes v) <? N.to_nat interleave_buf)
  && (n * n <=? N.to_nat (qr_max_width * qr_max_width))
  && (2 <=? n).
Definition layout_safe (v : nat) (e : ecl) : bool :=
  let gen := get_polynomial v e in
  let '(c1, s1, c2, s2) := ecc_groups e v in
  (1 <=? length gen)
  && (N.to_nat (N.max s1 s2) + length gen <=? N.to_nat division_top)
  && (N.to_nat (data_codewords v e) + (length gen - 1) * N.to_nat (c1 + c2) <=? N.to_nat interleave_buf)
  && (N.to_nat (c1 * s1 + c2 * s2) <=? N.to_nat (max_bytes v * compact_alloc_mul)).
Definition config_safe (v : nat) (e : ecl) : bool := geom_safe v && layout_safe v e.

Definition build_matrix (input : list N) (e : ecl) (m : mode) (v : nat) (forced_mask : option nat) : result qrcode :=
  match encode_panic input e m v with
  | Some code => Panic code
  | None =>
    if negb (config_safe v e) then Panic 4 else
    let data := cdata (encode input e m v) in
    let st := structure_buffer data e v in
    let '(mat, mask) := place_on_matrix v st e forced_mask in
    Ok {| q_size := version_size v; q_mat := mat; q_version := v; q_ecl := e; q_mask := mask; q_mode := m |}
  end.

(* the same without re-evaluating the configuration check (equal to build_matrix whenever config_safe holds,
   which Proofs/GeomSafe.v shows for all 40 x 4 configurations); this is what the extracted driver runs *)
Definition build_matrix_unchecked (input : list N) (e : ecl) (m : mode) (v : nat) (forced_mask : option nat) : result qrcode :=
  match encode_panic input e m v with
  | Some code => Panic code
  | None =>
    let data := cdata (encode input e m v) in
    let st := structure_buffer data e v in
    let '(mat, mask) := place_on_matrix v st e forced_mask in
    Ok {| q_size := version_size v; q_mat := mat; q_version := v; q_ecl := e; q_mask := mask; q_mode := m |}
  end.

(* QRCode::new: mode, level and version in effect, or one of the two documented errors *)
Definition resolve (input : list N) (o : options) : result (mode * ecl * nat) :=
  let m := match o_mode o with Some m => m | None => best_encoding input end in
  let e := match o_ecl o with Some e => e | None => default_level end in
  match version_get m e (N.of_nat (length input)) with
  | None => ErrEncodedData
  | Some vmin =>
      match o_version o with
      | Some uv => if vmin <=? uv then Ok (m, e, uv) else ErrSpecifiedVersion
      | None => Ok (m, e, vmin)
      end
  end.

Definition build_with (bm : list N -> ecl -> mode -> nat -> option nat -> result qrcode) (input : list N) (o : options) : result qrcode :=
  match resolve input o with
  | Ok (m, e, v) => bm input e m v (o_mask o)
  | ErrEncodedData => ErrEncodedData
  | ErrSpecifiedVersion => ErrSpecifiedVersion
  | Panic c => Panic c
  end.
Definition build := build_with build_matrix.
Definition build_unchecked := build_with build_matrix_unchecked.

(* what the hook recorder observes during a successful build: the (mask, score, candidate) triples of the selection loop
   (the loop runs whether or not a mask is forced) *)
Definition build_trace (input : list N) (o : options) : list (nat * N * qmat) :=
  match resolve input o with
  | Ok (m, e, v) =>
      match encode_panic input e m v with
      | Some _ => []
      | None =>
          let n := version_size v in
          let data := cdata (encode input e m v) in
          select_trace n (fst (place_data n (blank v) (structure_buffer data e v)))
      end
  | _ => []
  end.
