(* polynomials.rs: log-domain long division and block structuring / interleaving. *)
From Coq Require Import NArith List Bool Arith.
From FQ Require Import Lib.ListX Generated.Tables Model.Types Model.Hardcode.
Import ListNotations.
Local Open Scope N_scope.

Definition LOG (i : N) : N := getN log_tbl i.
Definition ANTILOG (i : N) : N := getN antilog_tbl i.

(* one step of the inner loop: from_mut[i + j] ^= LOG[(by[j] + alpha) % 255] for j in 0..by.len() *)
Fixpoint xor_gen (alpha : N) (cur gen : list N) : list N :=
  match cur, gen with
  | x :: cur', g :: gen' => N.lxor x (LOG ((g + alpha) mod division_mod)) :: xor_gen alpha cur' gen'
  | _, _ => cur
  end.

(* the outer loop over the window that starts at position i: [cur] is from_mut[i..] *)
Fixpoint div_loop (n : nat) (cur gen : list N) : list N :=
  match n with
  | O => cur
  | S n' => match cur with
            | [] => []
            | c :: rest =>
                if c =? 0 then div_loop n' rest gen
                else match xor_gen (ANTILOG c) cur gen with
                     | [] => []
                     | _ :: rest' => div_loop n' rest' gen
                     end
            end
  end.

(* division(from, by): the 255-byte buffer holds from at start..256-|by|, zeros elsewhere; the loop runs over
   |from| positions; the result buffer is zero before [start], the cancelled positions (all zero), then the
   remainder at 256-|by| .. 255. [division] returns the last |by|-1 bytes, i.e. the EC codewords
   (what structure() reads: division[256 - |by| + j] for j < |by| - 1). *)
Definition division_ec (from gen : list N) : list N :=
  div_loop (length from) (from ++ repeat 0 (length gen - 1)) gen.

(* the same loop keeping the cancelled leading positions (they end up 0 when the tables are consistent) *)
Fixpoint div_full (n : nat) (cur gen : list N) : list N :=
  match n with
  | O => cur
  | S n' => match cur with
            | [] => []
            | c :: rest =>
                if c =? 0 then c :: div_full n' rest gen
                else match xor_gen (ANTILOG c) cur gen with
                     | [] => []
                     | h :: rest' => h :: div_full n' rest' gen
                     end
            end
  end.

(* the full 255-byte result buffer, for the correspondence with the hook *)
Definition division_buffer (from gen : list N) : list N :=
  repeat 0 (N.to_nat division_buf - (length from + (length gen - 1)))
  ++ div_full (length from) (from ++ repeat 0 (length gen - 1)) gen.

(* panic conditions: start = 256 - |from| - |by| underflows; slice/copy lengths *)
Definition division_panics (from gen : list N) : bool :=
  (division_top <? N.of_nat (length from + length gen)) || (length gen =? 0)%nat.

Definition groups_of (e : ecl) (v : nat) : list (N * N) :=
  let '(c1, s1, c2, s2) := ecc_groups e v in [(c1, s1); (c2, s2)].

(* block i (0-based over both groups): start offset and size, as the two loops compute them *)
Definition block_ranges (e : ecl) (v : nat) : list (nat * nat) :=
  let '(c1, s1, c2, s2) := ecc_groups e v in
  map (fun i => (i * N.to_nat s1, N.to_nat s1))%nat (seq 0 (N.to_nat c1))
  ++ map (fun i => (N.to_nat s1 * N.to_nat c1 + i * N.to_nat s2, N.to_nat s2))%nat (seq 0 (N.to_nat c2)).

Definition slice (data : list N) (start len : nat) : list N := firstn len (skipn start data).

(* data gather plan of the third loop nest: interleaved[push_idx++] = data[idx] *)
Definition gather_plan (e : ecl) (v : nat) : list nat :=
  let '(c1, s1, c2, s2) := ecc_groups e v in
  let c1 := N.to_nat c1 in let s1 := N.to_nat s1 in let c2 := N.to_nat c2 in let s2 := N.to_nat s2 in
  flat_map (fun i =>
    (if i <? s1 then map (fun j => j * s1 + i) (seq 0 c1) else [])
    ++ (if i <? s2 then map (fun j => j * s2 + i + s1 * c1) (seq 0 c2) else []))%nat
    (seq 0 (Nat.max s1 s2)).

(* EC part: interleaved[start_error_idx + j * groups + i] = ec_i[j]; as a gather over (j, i) *)
Definition ec_interleave (ecs : list (list N)) (eclen : nat) : list N :=
  flat_map (fun j => map (fun ec => nth j ec 0) ecs) (seq 0 eclen).

(* structure(): the interleaved buffer up to its last written index; zeros beyond *)
Definition structure (data : list N) (e : ecl) (v : nat) : list N :=
  let gen := get_polynomial v e in
  let ecs := map (fun r => division_ec (slice data (fst r) (snd r)) gen) (block_ranges e v) in
  let d := map (fun idx => nth idx data 0) (gather_plan e v) in
  (* the EC region starts at data_codewords(v, e); between the gathered data and that index the buffer is zero *)
  d ++ repeat 0 (N.to_nat (data_codewords v e) - length d) ++ ec_interleave ecs (length gen - 1).

Definition structure_buffer (data : list N) (e : ecl) (v : nat) : list N :=
  let s := structure data e v in s ++ repeat 0 (N.to_nat interleave_buf - length s).
