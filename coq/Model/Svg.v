(* convert/svg.rs and convert/mod.rs: SvgBuilder (default, setters, image_placement, escape_attribute, image, path,
   to_str), Shape::{square, circle, rounded_square, vertical, horizontal, diamond}, rgba2hex.

   Strings are lists of UTF-8 bytes (list N). The format strings are the regenerated templates of Generated/Strings.v
   (holes kept verbatim) filled by [fmt]; four templates that the generator does not produce yet are written
   taken from Generated/Strings.v like the others (image_*_src).

   What the model covers, and how:
   * Color is restricted to the From<[u8; 4]> constructor (an [rgba] value, every component < 256). rgba2hex is applied
     when the colour is printed instead of in the setter (rgba2hex is a pure function, so this is the same string).
     Colours given as arbitrary strings (Color::from(&str)) and Shape::Command closures are outside the model.
   * Rust keeps `commands` and `command_colors` as two Vecs that are only ever pushed together (private fields); the
     model keeps one list of pairs [c_layers], so `command_colors[i]` cannot be out of range.
   * usize arithmetic (`margin * 2 + n`, `y + margin`) is done in N, without the 2^64 (2^32 on wasm32) overflow check.
   * f64 values are modelled as exact rationals in fixed point: [fx] = Z counts thousandths. The overrides (size, gap,
     position) are given in hundredths [c_image_size : option Z], ..., so every value that is printed is a multiple of
     0.005 and all divisions by two below are exact. The model is the exact-arithmetic semantics for every such input;
     it agrees with the IEEE-754 evaluation (and therefore byte for byte with Rust) whenever no rounding happens in
     f64, in particular
        - for the defaults (no override), all 40 versions x 3 background shapes x every margin with
          2*margin + n < 2^50, and
        - for overrides that are multiples of 0.25 (hundredths divisible by 25) of moderate size (every intermediate
          value is then a multiple of 1/8 below 2^50 in magnitude, exactly representable).
     Not modelled: NaN / infinities, negative zero as an input, inputs that are not multiples of 0.25.
   * `Version::from_n(n)` panics when n is not 21, 25, .., 177; `image()` only calls it when an image is set.
     [to_str_panics] is that condition; [to_str] itself is total (version 0 is used in the panicking case). *)
From Coq Require Import NArith ZArith List Bool Arith.
From FQ Require Import Lib.ListX Lib.Mat Generated.Tables Generated.Strings Model.Types.
Import ListNotations.

(* ------------------------------------------------------------------------------------------------------------ *)
(* format!: templates with {name} holes                                                                          *)

Inductive seg := Lit (l : list N) | Hole (name : list N).

(* '{' = 123 opens a hole, '}' = 125 closes it; none of the templates uses the {{ / }} escapes *)
Fixpoint parse_tpl_aux (t : list N) (lit : list N) (hole : option (list N)) : list seg :=
  match t with
  | [] => [Lit (rev lit)]
  | ch :: t' =>
      match hole with
      | None => if N.eqb ch 123 then Lit (rev lit) :: parse_tpl_aux t' [] (Some [])
                else parse_tpl_aux t' (ch :: lit) None
      | Some h => if N.eqb ch 125 then Hole (rev h) :: parse_tpl_aux t' [] None
                  else parse_tpl_aux t' lit (Some (ch :: h))
      end
  end.
Definition parse_tpl (t : list N) : list seg := parse_tpl_aux t [] None.

Definition env := list (list N * list N).
Fixpoint lookup (k : list N) (e : env) : list N :=
  match e with
  | [] => []
  | (k', v) :: e' => if list_eqb N.eqb k k' then v else lookup k e'
  end.
Definition seg_out (e : env) (s : seg) : list N :=
  match s with Lit l => l | Hole h => lookup h e end.
Definition fmt_segs (segs : list seg) (e : env) : list N := flat_map (seg_out e) segs.
Definition fmt (tpl : list N) (e : env) : list N := fmt_segs (parse_tpl tpl) e.

(* hole names *)
Definition h_x : list N := [120%N].            (* x *)
Definition h_y : list N := [121%N].            (* y *)
Definition h_pos : list N := [].               (* {} *)
Definition h_0 : list N := [48%N].
Definition h_1 : list N := [49%N].
Definition h_2 : list N := [50%N].
Definition h_3 : list N := [51%N].
Definition h_0p2 : list N := [48; 58; 46; 50]%N.   (* 0:.2 *)
Definition h_1p2 : list N := [49; 58; 46; 50]%N.   (* 1:.2 *)
Definition h_2p2 : list N := [50; 58; 46; 50]%N.   (* 2:.2 *)

(* ------------------------------------------------------------------------------------------------------------ *)
(* number printing                                                                                               *)

Local Open Scope N_scope.

(* usize Display: decimal, no leading zeros; the fuel (bit length) is at least the number of decimal digits *)
Fixpoint dec_aux (fuel : nat) (n : N) (acc : list N) : list N :=
  match fuel with
  | O => acc
  | S f => let acc' := (48 + n mod 10) :: acc in
           if n / 10 =? 0 then acc' else dec_aux f (n / 10) acc'
  end.
Definition dec (n : N) : list N := dec_aux (S (N.to_nat (N.log2 n))) n [].

(* {:02x} of a u8 *)
Definition hexdig (d : N) : N := if d <? 10 then 48 + d else 87 + d.
Definition hex2 (b : N) : list N := [hexdig (b / 16); hexdig (b mod 16)].

Record rgba := { c_r : N; c_g : N; c_b : N; c_a : N }.
Definition rgba_ok (c : rgba) : bool := (c_r c <? 256) && (c_g c <? 256) && (c_b c <? 256) && (c_a c <? 256).
(* rgba2hex: '#', three components, alpha only when it is not 255 *)
Definition rgba2hex (c : rgba) : list N :=
  [35] ++ hex2 (c_r c) ++ hex2 (c_g c) ++ hex2 (c_b c) ++ (if c_a c =? 255 then [] else hex2 (c_a c)).

Definition WHITE : rgba := {| c_r := 255; c_g := 255; c_b := 255; c_a := 255 |}.
Definition BLACK : rgba := {| c_r := 0; c_g := 0; c_b := 0; c_a := 255 |}.

(* fixed point: thousandths *)
Definition fx := Z.
Local Open Scope Z_scope.
Definition fx_of_N (n : N) : fx := 1000 * Z.of_N n.
Definition fx_of_hundredths (h : Z) : fx := 10 * h.

(* f64::round: to the nearest integer, halves away from zero *)
Definition fx_round (t : fx) : fx :=
  if t <? 0 then - (1000 * ((2 * (- t) + 1000) / 2000)) else 1000 * ((2 * t + 1000) / 2000).

Definition digit (d : N) : N := (48 + d)%N.
(* f64 Display (`to_string`) of a multiple of 0.001: sign, integer part, then the fraction without trailing zeros *)
Definition fx_to_string (t : fx) : list N :=
  let a := Z.abs_N t in
  let ip := (a / 1000)%N in
  let fr := (a mod 1000)%N in
  let d1 := (fr / 100)%N in
  let d2 := ((fr / 10) mod 10)%N in
  let d3 := (fr mod 10)%N in
  (if t <? 0 then [45%N] else [])
  ++ dec ip
  ++ (if negb (d3 =? 0)%N then [46%N; digit d1; digit d2; digit d3]
      else if negb (d2 =? 0)%N then [46%N; digit d1; digit d2]
      else if negb (d1 =? 0)%N then [46%N; digit d1]
      else []).

(* `{:.2}`: two decimals, the exact value rounded half to even; the sign of a negative value is kept ("-0.00") *)
Definition fx_fixed2 (t : fx) : list N :=
  let a := Z.abs_N t in
  let q := (a / 10)%N in
  let r := (a mod 10)%N in
  let q' := if ((5 <? r) || ((r =? 5) && N.odd q))%N then (q + 1)%N else q in
  (if t <? 0 then [45%N] else [])
  ++ dec (q' / 100) ++ [46%N; digit ((q' / 10) mod 10); digit (q' mod 10)].

(* ------------------------------------------------------------------------------------------------------------ *)
(* shapes                                                                                                        *)

Inductive shape := Square | Circle | RoundedSquare | Vertical | Horizontal | Diamond.
Inductive ishape := ISquare | ICircle | IRoundedSquare.

Definition shape_idx (s : shape) : nat :=
  match s with Square => 0 | Circle => 1 | RoundedSquare => 2 | Vertical => 3 | Horizontal => 4 | Diamond => 5 end.
Definition shape_of_idx (i : nat) : shape :=
  match i with 0 => Square | 1 => Circle | 2 => RoundedSquare | 3 => Vertical | 4 => Horizontal | _ => Diamond end%nat.
Definition ishape_idx (s : ishape) : nat := match s with ISquare => 0 | ICircle => 1 | IRoundedSquare => 2 end.
Definition ishape_of_idx (i : nat) : ishape := match i with 0 => ISquare | 1 => ICircle | _ => IRoundedSquare end%nat.
Definition shape_eqb (a b : shape) : bool := Nat.eqb (shape_idx a) (shape_idx b).

(* parsed once *)
Definition square_segs := parse_tpl shape_square_tpl.
Definition circle_segs := parse_tpl shape_circle_tpl.
Definition rounded_square_segs := parse_tpl shape_rounded_square_tpl.
Definition vertical_segs := parse_tpl shape_vertical_tpl.
Definition horizontal_segs := parse_tpl shape_horizontal_tpl.
Definition diamond_segs := parse_tpl shape_diamond_tpl.

(* Shape::FUNCTIONS[index](y, x, module): the module argument is ignored by all six *)
Definition shape_fn (s : shape) (y x : N) : list N :=
  match s with
  | Square => fmt_segs square_segs [(h_x, dec x); (h_y, dec y)]
  | Circle => fmt_segs circle_segs [(h_pos, dec (x + 1)%N); (h_y, dec y)]
  | RoundedSquare => fmt_segs rounded_square_segs [(h_x, dec x); (h_y, dec y)]
  | Vertical => fmt_segs vertical_segs [(h_x, dec x); (h_y, dec y)]
  | Horizontal => fmt_segs horizontal_segs [(h_x, dec x); (h_y, dec y)]
  | Diamond => fmt_segs diamond_segs [(h_x, dec x); (h_y, dec y)]
  end.

(* ------------------------------------------------------------------------------------------------------------ *)
(* the builder                                                                                                   *)

Record cfg := {
  c_layers : list (shape * option rgba);     (* commands zipped with command_colors *)
  c_margin : N;
  c_background_color : rgba;
  c_dot_color : rgba;
  c_image : option (list N);
  c_image_background_color : rgba;
  c_image_background_shape : ishape;
  c_image_size : option Z;                    (* hundredths *)
  c_image_gap : option Z;                     (* hundredths *)
  c_image_position : option (Z * Z);          (* hundredths *)
}.

Definition default : cfg := {|
  c_layers := [];
  c_margin := svg_default_margin;
  c_background_color := WHITE;
  c_dot_color := BLACK;
  c_image := None;
  c_image_background_color := WHITE;
  c_image_background_shape := ISquare;
  c_image_size := None;
  c_image_gap := None;
  c_image_position := None;
|}.

Definition set_margin (c : cfg) (m : N) : cfg :=
  {| c_layers := c_layers c; c_margin := m; c_background_color := c_background_color c; c_dot_color := c_dot_color c;
     c_image := c_image c; c_image_background_color := c_image_background_color c;
     c_image_background_shape := c_image_background_shape c; c_image_size := c_image_size c;
     c_image_gap := c_image_gap c; c_image_position := c_image_position c |}.
Definition set_module_color (c : cfg) (x : rgba) : cfg :=
  {| c_layers := c_layers c; c_margin := c_margin c; c_background_color := c_background_color c; c_dot_color := x;
     c_image := c_image c; c_image_background_color := c_image_background_color c;
     c_image_background_shape := c_image_background_shape c; c_image_size := c_image_size c;
     c_image_gap := c_image_gap c; c_image_position := c_image_position c |}.
Definition set_background_color (c : cfg) (x : rgba) : cfg :=
  {| c_layers := c_layers c; c_margin := c_margin c; c_background_color := x; c_dot_color := c_dot_color c;
     c_image := c_image c; c_image_background_color := c_image_background_color c;
     c_image_background_shape := c_image_background_shape c; c_image_size := c_image_size c;
     c_image_gap := c_image_gap c; c_image_position := c_image_position c |}.
Definition set_layers (c : cfg) (l : list (shape * option rgba)) : cfg :=
  {| c_layers := l; c_margin := c_margin c; c_background_color := c_background_color c; c_dot_color := c_dot_color c;
     c_image := c_image c; c_image_background_color := c_image_background_color c;
     c_image_background_shape := c_image_background_shape c; c_image_size := c_image_size c;
     c_image_gap := c_image_gap c; c_image_position := c_image_position c |}.
Definition add_shape (c : cfg) (s : shape) : cfg := set_layers c (c_layers c ++ [(s, None)]).
Definition add_shape_color (c : cfg) (s : shape) (x : rgba) : cfg := set_layers c (c_layers c ++ [(s, Some x)]).
Definition set_image (c : cfg) (img : list N) : cfg :=
  {| c_layers := c_layers c; c_margin := c_margin c; c_background_color := c_background_color c; c_dot_color := c_dot_color c;
     c_image := Some img; c_image_background_color := c_image_background_color c;
     c_image_background_shape := c_image_background_shape c; c_image_size := c_image_size c;
     c_image_gap := c_image_gap c; c_image_position := c_image_position c |}.
Definition set_image_background_color (c : cfg) (x : rgba) : cfg :=
  {| c_layers := c_layers c; c_margin := c_margin c; c_background_color := c_background_color c; c_dot_color := c_dot_color c;
     c_image := c_image c; c_image_background_color := x;
     c_image_background_shape := c_image_background_shape c; c_image_size := c_image_size c;
     c_image_gap := c_image_gap c; c_image_position := c_image_position c |}.
Definition set_image_background_shape (c : cfg) (s : ishape) : cfg :=
  {| c_layers := c_layers c; c_margin := c_margin c; c_background_color := c_background_color c; c_dot_color := c_dot_color c;
     c_image := c_image c; c_image_background_color := c_image_background_color c;
     c_image_background_shape := s; c_image_size := c_image_size c;
     c_image_gap := c_image_gap c; c_image_position := c_image_position c |}.
Definition set_image_size (c : cfg) (h : Z) : cfg :=
  {| c_layers := c_layers c; c_margin := c_margin c; c_background_color := c_background_color c; c_dot_color := c_dot_color c;
     c_image := c_image c; c_image_background_color := c_image_background_color c;
     c_image_background_shape := c_image_background_shape c; c_image_size := Some h;
     c_image_gap := c_image_gap c; c_image_position := c_image_position c |}.
Definition set_image_gap (c : cfg) (h : Z) : cfg :=
  {| c_layers := c_layers c; c_margin := c_margin c; c_background_color := c_background_color c; c_dot_color := c_dot_color c;
     c_image := c_image c; c_image_background_color := c_image_background_color c;
     c_image_background_shape := c_image_background_shape c; c_image_size := c_image_size c;
     c_image_gap := Some h; c_image_position := c_image_position c |}.
Definition set_image_position (c : cfg) (x y : Z) : cfg :=
  {| c_layers := c_layers c; c_margin := c_margin c; c_background_color := c_background_color c; c_dot_color := c_dot_color c;
     c_image := c_image c; c_image_background_color := c_image_background_color c;
     c_image_background_shape := c_image_background_shape c; c_image_size := c_image_size c;
     c_image_gap := c_image_gap c; c_image_position := Some (x, y) |}.

(* ------------------------------------------------------------------------------------------------------------ *)
(* image()                                                                                                       *)

(* Version::from_n: the match arms of version.rs; None = the `_ => panic!` arm *)
Definition version_from_n (n : N) : option nat :=
  match find (fun a : N * N => N.eqb (fst a) n) from_n_arms with
  | Some a => Some (N.to_nat (snd a))
  | None => None
  end.

(* image_placement: (border_size, image_size). SQUARE = ROUNDED_SQUARE = CIRCLE = svg_square_tbl;
   gap = (2 | 3) * (version + 10) / 10; image = round(border - gap) *)
Definition gap_base (s : ishape) : N :=
  match s with ISquare | IRoundedSquare => nthN svg_gap_tbl 0 | ICircle => nthN svg_gap_tbl 1 end.
Definition image_placement (s : ishape) (v : nat) : fx * fx :=
  let border := fx_of_N (nthN svg_square_tbl v) in
  (* gap * (version + 10) / 10 in thousandths: exact because 1000 is a multiple of the divisor 10 *)
  let gap := Z.of_N (gap_base s) * Z.of_N (N.of_nat v + nthN svg_gap_scale_tbl 0) * (1000 / Z.of_N (nthN svg_gap_scale_tbl 1)) in
  (border, fx_round (border - gap)).

(* the geometry computed by image(): (x, y) of the frame, side of the frame, side of the image *)
Definition image_geometry (c : cfg) (n : N) (v : nat) : fx * fx * fx * fx :=
  let '(b0, i0) := image_placement (c_image_background_shape c) v in
  let '(b1, i1) :=
    match c_image_size c with
    | Some s => let gap := - (i0 - b0) in (fx_of_hundredths s + gap, fx_of_hundredths s)
    | None => (b0, i0)
    end in
  let b2 := match c_image_gap c with Some g => i1 + fx_of_hundredths g * 2 | None => b1 end in
  let x0 := fx_of_N (c_margin c * 2 + n) - b2 in
  (* `placed_coord_x % 2f64 != 0f64` *)
  let '(x1, b3) := if Z.rem x0 2000 =? 0 then (x0, b2) else (x0 + 1000, b2 - 1000) in
  let x2 := x1 / 2 in
  let '(px, py) :=
    match c_image_position c with
    | Some (x, y) => (fx_of_hundredths x - b3 / 2, fx_of_hundredths y - b3 / 2)
    | None => (x2, x2)
    end in
  (px, py, b3, i1).

(* escape_attribute: the match arms of svg.rs, byte-wise (every escaped character is ASCII, so on UTF-8 text this
   is the same as the character-wise loop) *)
Definition escape_byte (b : N) : list N :=
  match find (fun arm : list N * list N => list_eqb N.eqb (fst arm) [b]) escape_arms with
  | Some arm => snd arm
  | None => [b]
  end.
Definition escape_attribute (s : list N) : list N := flat_map escape_byte s.

(* ---- image templates: regenerated from svg.rs `image` by the translator (Generated/Strings.v) ---- *)
Local Open Scope N_scope.
Definition image_rect_square_tpl : list N := image_rect_square_src.   (* <rect x="{0}" y="{1}" width="{2}" height="{2}" fill="{3}"/> *)
Definition image_rect_circle_tpl : list N := image_rect_circle_src.   (* ... rx="1000px"/> *)
Definition image_rect_rounded_tpl : list N := image_rect_rounded_src. (* ... rx="1px"/> *)
Definition image_elem_tpl : list N := image_elem_src.   (* <image x="{0:.2}" y="{1:.2}" width="{2:.2}" height="{2:.2}" href="{3}" /> *)
(* ---- end of image templates ---- *)

Definition image_rect_tpl (s : ishape) : list N :=
  match s with
  | ISquare => image_rect_square_tpl
  | ICircle => image_rect_circle_tpl
  | IRoundedSquare => image_rect_rounded_tpl
  end.

Local Open Scope Z_scope.
(* image(n). The rectangle is produced in Rust by four successive `str::replace` calls on the raw string; the inserted
   texts (numbers, a colour) contain no '{', so this equals the simultaneous substitution done by [fmt]. *)
Definition image_with (c : cfg) (n : N) (v : nat) (img : list N) : list N :=
  let '(px, py, border, isz) := image_geometry c n v in
  fmt (image_rect_tpl (c_image_background_shape c))
      [(h_0, fx_to_string px); (h_1, fx_to_string py); (h_2, fx_to_string border);
       (h_3, rgba2hex (c_image_background_color c))]
  ++ fmt image_elem_tpl
      [(h_0p2, fx_fixed2 (px + (border - isz) / 2)); (h_1p2, fx_fixed2 (py + (border - isz) / 2));
       (h_2p2, fx_fixed2 isz); (h_3, escape_attribute img)].
Definition image (c : cfg) (n : N) : list N :=
  match c_image c with
  | None => []
  | Some img => image_with c n (match version_from_n n with Some v => v | None => O end) img
  end.

(* ------------------------------------------------------------------------------------------------------------ *)
(* path() and to_str()                                                                                           *)

Local Open Scope N_scope.
Definition path_open : list N := nth 0 path_lits [].          (* <path d= and the opening quote *)
Definition path_stroke_tpl : list N := nth 1 path_lits [].    (* closing quote, stroke-width=".3" stroke-linejoin="round" stroke= opening quote {} *)
Definition path_fill_tpl : list N := nth 2 path_lits [].      (* closing quote, fill="{}"/> *)
Definition svg_open_tpl : list N := nth 0 to_str_lits [].     (* <svg viewBox="0 0 {0} {0}" xmlns="http://www.w3.org/2000/svg"> *)
Definition svg_rect_tpl : list N := nth 1 to_str_lits [].     (* <rect width="{0}px" height="{0}px" fill="{1}"/> *)
Definition svg_close : list N := nth 2 to_str_lits [].        (* </svg> *)

Definition default_layers : list (shape * option rgba) := [(Square, None)].
Definition effective_layers (c : cfg) : list (shape * option rgba) :=
  match c_layers c with [] => default_layers | l => l end.

(* the dark modules in the order of the two loops: (y, x), rows first *)
Definition dark_cells (n : nat) (m : qmat) : list (nat * nat) :=
  flat_map (fun y => flat_map (fun x => if snd (qget m y x) then [(y, x)] else []) (seq 0 n)) (seq 0 n).

(* The builder appends to the output; the functions below take the text that follows ([rest]) as an argument so that
   every list append has a short left operand (the extracted code then runs in constant stack per module).
   Proofs/SvgShape.v shows the plain reading: path_k c n m rest = path c n m ++ rest, etc. *)
Definition cell_text (c : cfg) (s : shape) (p : nat * nat) : list N :=
  shape_fn s (N.of_nat (fst p) + c_margin c) (N.of_nat (snd p) + c_margin c).

Definition path_data_k (c : cfg) (s : shape) (cells : list (nat * nat)) (rest : list N) : list N :=
  fold_right (fun p acc => cell_text c s p ++ acc) rest cells.

Definition layer_color (c : cfg) (l : shape * option rgba) : list N :=
  rgba2hex (match snd l with Some x => x | None => c_dot_color c end).

(* the text after the path data: the stroke attributes for Shape::rounded_square, then the fill *)
Definition layer_tail (c : cfg) (l : shape * option rgba) : list N :=
  (if shape_eqb (fst l) RoundedSquare then fmt path_stroke_tpl [(h_pos, layer_color c l)] else [])
  ++ fmt path_fill_tpl [(h_pos, layer_color c l)].

Definition layer_path_k (c : cfg) (cells : list (nat * nat)) (l : shape * option rgba) (rest : list N) : list N :=
  path_open ++ path_data_k c (fst l) cells (layer_tail c l ++ rest).

Definition path_k (c : cfg) (n : nat) (m : qmat) (rest : list N) : list N :=
  let cells := dark_cells n m in
  fold_right (layer_path_k c cells) rest (effective_layers c).

Definition to_str (c : cfg) (n : nat) (m : qmat) : list N :=
  let side := dec (c_margin c * 2 + N.of_nat n) in
  fmt svg_open_tpl [(h_0, side)]
  ++ fmt svg_rect_tpl [(h_0, side); (h_1, rgba2hex (c_background_color c))]
  ++ path_k c n m (image c (N.of_nat n) ++ svg_close).

(* the same, written as the plain concatenations of the Rust code (equal to the above: Proofs/SvgShape.v) *)
Definition path_data (c : cfg) (s : shape) (cells : list (nat * nat)) : list N := flat_map (cell_text c s) cells.
Definition layer_path (c : cfg) (cells : list (nat * nat)) (l : shape * option rgba) : list N :=
  path_open ++ path_data c (fst l) cells ++ layer_tail c l.
Definition path (c : cfg) (n : nat) (m : qmat) : list N :=
  flat_map (layer_path c (dark_cells n m)) (effective_layers c).

(* the only panic path of to_str: Version::from_n on a size that is not 4v + 21, reached only when an image is set *)
Definition to_str_panics (c : cfg) (n : nat) : bool :=
  match c_image c, version_from_n (N.of_nat n) with
  | Some _, None => true
  | _, _ => false
  end.
