(* placement.rs: zig-zag data placement and mask selection. *)
From Coq Require Import NArith List Bool Arith.
From FQ Require Import Lib.ListX Lib.Mat Generated.Tables Model.Types Model.Hardcode Model.Compact
  Model.Default Model.Masking Model.Score.
Import ListNotations.

(* columns: (0..6).chain(7..n).rev().step_by(2) *)
Definition place_xs (n : nat) : list nat := step_by 2 (rev (seq 0 6 ++ range 7 n)).

Fixpoint place_coords_aux (n : nat) (xs : list nat) (rv : bool) : list (nat * nat) :=
  match xs with
  | [] => []
  | x :: t =>
      flat_map (fun y => [(y, x); (y, x - 1)]) (if rv then rev (seq 0 n) else seq 0 n)
      ++ place_coords_aux n t (negb rv)
  end.
Definition place_coords (n : nat) : list (nat * nat) := place_coords_aux n (place_xs n) true.

(* bit idx of the stream: bytes[idx / 8] & (1 << (7 - idx % 8)) *)
Definition stream_bit (bytes : list N) (idx : N) : bool :=
  N.testbit (getN bytes (idx / 8)) (7 - idx mod 8).

Definition place_step (bytes : list N) (st : qmat * N) (p : nat * nat) : qmat * N :=
  let '(m, idx) := st in
  let x := qget m (fst p) (snd p) in
  if is_data x then (qset m (fst p) (snd p) (cell_set x (stream_bit bytes idx)), (idx + 1)%N) else (m, idx).

Definition place_data (n : nat) (m : qmat) (bytes : list N) : qmat * N :=
  fold_left (place_step bytes) (place_coords n) (m, 0%N).

Definition masks_order : list nat := map N.to_nat masks_order_tbl.

(* the selection loop: strict `<` against u32::MAX, first mask as the initial best *)
Definition select_step (n : nat) (m : qmat) (st : N * nat) (mask : nat) : N * nat :=
  let cand := apply_mask n m mask in
  let s := score n cand (transpose n cand) in
  if (s <? fst st)%N then (s, mask) else st.
Definition select_mask (n : nat) (m : qmat) : nat :=
  snd (fold_left (select_step n m) masks_order (4294967295%N, hd 0 masks_order)).

(* what the hook recorder sees: (mask, score used for ranking, candidate) per iteration *)
Definition select_trace (n : nat) (m : qmat) : list (nat * N * qmat) :=
  map (fun mask => let cand := apply_mask n m mask in (mask, score n cand (transpose n cand), cand)) masks_order.

Definition place_on_matrix (v : nat) (bytes : list N) (e : ecl) (forced : option nat) : qmat * nat :=
  let n := version_size v in
  let placed := fst (place_data n (blank v) bytes) in
  let best := match forced with Some k => k | None => select_mask n placed end in
  (apply_mask n (place_format n placed e best) best, best).
