(* placement.rs: zig-zag data placement and mask selection. *)
From Coq Require Import NArith List Bool Arith.
From FQ Require Import Lib.ListX Lib.Mat Generated.Tables Model.Types Model.Hardcode Model.Compact
  Model.Default Model.Masking Model.Score.
Import ListNotations.

(* columns: (0..6).chain(7..n).rev().step_by(2) *)
Definition place_xs (n : nat) : list nat := step_by 2 (rev (seq 0 6 ++ range 7 n)).

Fixpoint place_coords_aux (n : nat) (xs : list nat) (rv : bool) : list (nat * nat) :=
  match xs with
  | [] => []
  | x :: t =>
      flat_map (fun y => [(y, x); (y, x - 1)]) (if rv then rev (seq 0 n) else seq 0 n)
      ++ place_coords_aux n t (negb rv)
  end.
Definition place_coords (n : nat) : list (nat * nat) := place_coords_aux n (place_xs n) true.

(* the stream as bits, most significant bit of each byte first: bit idx is bytes[idx / 8] & (1 << (7 - idx % 8)) *)
Fixpoint byte_bits (w : nat) (x : N) : list bool :=
  match w with O => [] | S w' => N.testbit x (N.of_nat w') :: byte_bits w' x end.
Definition stream_bits (bytes : list N) : list bool := flat_map (byte_bits 8) bytes.

(* state: matrix, number of bits consumed (idx), remaining bits. The walk consumes the stream front to back. *)
Definition place_step (st : qmat * N * list bool) (p : nat * nat) : qmat * N * list bool :=
  let '(m, idx, bits) := st in
  let x := qget m (fst p) (snd p) in
  if is_data x then (qset m (fst p) (snd p) (cell_set x (hd false bits)), (idx + 1)%N, tl bits) else st.

Definition place_data (n : nat) (m : qmat) (bytes : list N) : qmat * N :=
  fst (fold_left place_step (place_coords n) (m, 0%N, stream_bits bytes)).

Definition masks_order : list nat := map N.to_nat masks_order_tbl.

(* the selection loop: strict `<` against u32::MAX, first mask as the initial best *)
Definition select_step (n : nat) (m : qmat) (st : N * nat) (mask : nat) : N * nat :=
  let cand := apply_mask n m mask in
  let s := score n cand (transpose n cand) in
  if (s <? fst st)%N then (s, mask) else st.
Definition select_mask (n : nat) (m : qmat) : nat :=
  snd (fold_left (select_step n m) masks_order (4294967295%N, hd 0 masks_order)).

(* what the hook recorder sees: (mask, score used for ranking, candidate) per iteration *)
Definition select_trace (n : nat) (m : qmat) : list (nat * N * qmat) :=
  map (fun mask => let cand := apply_mask n m mask in (mask, score n cand (transpose n cand), cand)) masks_order.

Definition place_on_matrix (v : nat) (bytes : list N) (e : ecl) (forced : option nat) : qmat * nat :=
  let n := version_size v in
  let placed := fst (place_data n (blank v) bytes) in
  let best := match forced with Some k => k | None => select_mask n placed end in
  (apply_mask n (place_format n placed e best) best, best).
