(* A strict recogniser for the subset of XML 1.0 (UTF-8) that the SVG renderer emits. It is written independently of
   the model. Strictness only rejects: every byte string accepted here is a well-formed XML 1.0 document
   (one root element; properly nested start / end / empty-element tags; attributes  name="value"  with unique names
   per tag; values without '<' and with '&' only as one of the five predefined entities or a decimal character
   reference to an XML Char; the whole text valid UTF-8 consisting of XML Chars), and the returned tree carries the
   attribute values with the references replaced, which is what a conforming parser reports.

   On top of XML 1.0 it rejects: any text, comment, PI, prolog or white space outside tags; '>' and literal tab, LF or CR
   inside attribute values (so attribute-value normalisation is the identity on accepted values); single-quoted values;
   white space other than exactly one U+0020 before an attribute and at most one before "/>"; white space around '=';
   non-ASCII names; hexadecimal character references; an end tag with white space. *)
From Coq Require Import NArith List Bool Arith.
From FQ Require Import Lib.ListX.
Import ListNotations.
Local Open Scope N_scope.

Inductive node := Elem (name : list N) (attrs : list (list N * list N)) (children : list node).
Definition doc := node.

(* ---- 1. characters: valid UTF-8 (shortest form, no surrogates, <= U+10FFFF) and every scalar an XML Char:
        #x9 | #xA | #xD | [#x20-#xD7FF] | [#xE000-#xFFFD] | [#x10000-#x10FFFF] ---- *)
Definition is_cont (b : N) : bool := (128 <=? b) && (b <? 192).
Definition ascii_char_ok (a : N) : bool := (32 <=? a) || (a =? 9) || (a =? 10) || (a =? 13).

Fixpoint chars_ok (s : list N) : bool :=
  match s with
  | [] => true
  | a :: t =>
      if a <? 128 then ascii_char_ok a && chars_ok t
      else if a <? 194 then false                                  (* continuation byte, or overlong C0 / C1 *)
      else if a <? 224 then
        match t with
        | b :: t' => is_cont b && chars_ok t'
        | _ => false
        end
      else if a <? 240 then
        match t with
        | b :: c :: t' =>
            is_cont b && is_cont c
            && (if a =? 224 then 160 <=? b else true)               (* no overlong 3-byte form *)
            && (if a =? 237 then b <? 160 else true)                (* no surrogates U+D800..U+DFFF *)
            && negb ((a =? 239) && (b =? 191) && (190 <=? c))       (* U+FFFE and U+FFFF are not XML Chars *)
            && chars_ok t'
        | _ => false
        end
      else if a <? 245 then
        match t with
        | b :: c :: d :: t' =>
            is_cont b && is_cont c && is_cont d
            && (if a =? 240 then 144 <=? b else true)               (* no overlong 4-byte form *)
            && (if a =? 244 then b <? 144 else true)                (* <= U+10FFFF *)
            && chars_ok t'
        | _ => false
        end
      else false
  end.

(* ---- 2. splitting ---- *)
(* the pieces of s between occurrences of c (always at least one piece) *)
Fixpoint split_on (c : N) (s : list N) : list (list N) :=
  match s with
  | [] => [[]]
  | x :: t =>
      if x =? c then [] :: split_on c t
      else match split_on c t with
           | p :: ps => (x :: p) :: ps
           | [] => [[x]]
           end
  end.

Definition has (c : N) (s : list N) : bool := existsb (N.eqb c) s.

(* the document must be  <body>  <body> ... <body>  with no '<' or '>' inside a body: split at '>' *)
Fixpoint tag_bodies (pieces : list (list N)) : option (list (list N)) :=
  match pieces with
  | [] => None
  | [last] => match last with [] => Some [] | _ => None end       (* the document ends with '>' *)
  | p :: ps =>
      match p with
      | c :: body =>
          if (c =? 60) && negb (has 60 body)
          then match tag_bodies ps with Some l => Some (body :: l) | None => None end
          else None
      | [] => None
      end
  end.
Definition tags (s : list N) : option (list (list N)) := tag_bodies (split_on 62 s).

(* ---- 3. names ---- *)
Definition is_alpha (c : N) : bool := ((65 <=? c) && (c <=? 90)) || ((97 <=? c) && (c <=? 122)).
Definition is_digit (c : N) : bool := (48 <=? c) && (c <=? 57).
Definition is_name_start (c : N) : bool := is_alpha c || (c =? 95) || (c =? 58).                 (* letter _ : *)
Definition is_name_char (c : N) : bool := is_name_start c || is_digit c || (c =? 45) || (c =? 46).  (* - . *)
Definition name_ok (s : list N) : bool :=
  match s with
  | [] => false
  | c :: t => is_name_start c && forallb is_name_char t
  end.

(* longest prefix of name characters, and the rest *)
Fixpoint span_name (s : list N) : list N * list N :=
  match s with
  | [] => ([], [])
  | c :: t => if is_name_char c then let '(a, b) := span_name t in (c :: a, b) else ([], s)
  end.

(* ---- 4. attribute values ---- *)
(* UTF-8 encoding of an XML Char given by a decimal character reference *)
Definition xml_char (n : N) : bool :=
  (n =? 9) || (n =? 10) || (n =? 13) || ((32 <=? n) && (n <=? 55295)) || ((57344 <=? n) && (n <=? 65533))
  || ((65536 <=? n) && (n <=? 1114111)).
Definition utf8_encode (n : N) : list N :=
  if n <? 128 then [n]
  else if n <? 2048 then [192 + n / 64; 128 + n mod 64]
  else if n <? 65536 then [224 + n / 4096; 128 + (n / 64) mod 64; 128 + n mod 64]
  else [240 + n / 262144; 128 + (n / 4096) mod 64; 128 + (n / 64) mod 64; 128 + n mod 64].

Definition dec_value (ds : list N) : N := fold_left (fun a d => 10 * a + (d - 48)) ds 0.

(* the text between '&' and ';' *)
Definition decode_entity (e : list N) : option (list N) :=
  if list_eqb N.eqb e [97; 109; 112] then Some [38]               (* amp *)
  else if list_eqb N.eqb e [108; 116] then Some [60]              (* lt *)
  else if list_eqb N.eqb e [103; 116] then Some [62]              (* gt *)
  else if list_eqb N.eqb e [113; 117; 111; 116] then Some [34]    (* quot *)
  else if list_eqb N.eqb e [97; 112; 111; 115] then Some [39]     (* apos *)
  else match e with
       | c :: ds =>                                               (* #ddd, 1 to 7 digits *)
           if (c =? 35) && (1 <=? length ds)%nat && (length ds <=? 7)%nat && forallb is_digit ds
              && xml_char (dec_value ds)
           then Some (utf8_encode (dec_value ds)) else None
       | [] => None
       end.

(* [ent] = None: ordinary text; Some e: inside a reference, e = the characters after '&' so far, reversed *)
Fixpoint unescape_aux (s : list N) (ent : option (list N)) : option (list N) :=
  match s with
  | [] => match ent with None => Some [] | Some _ => None end
  | c :: t =>
      match ent with
      | None =>
          if c =? 38 then unescape_aux t (Some [])
          else if (c =? 60) || (c =? 9) || (c =? 10) || (c =? 13) then None
          else match unescape_aux t None with Some r => Some (c :: r) | None => None end
      | Some e =>
          if c =? 59 then
            match decode_entity (rev e) with
            | Some bytes => match unescape_aux t None with Some r => Some (bytes ++ r) | None => None end
            | None => None
            end
          else unescape_aux t (Some (c :: e))
      end
  end.
Definition unescape (s : list N) : option (list N) := unescape_aux s None.

(* ---- 5. one tag ---- *)
Inductive token :=
| TStart (name : list N) (attrs : list (list N * list N))
| TEmpty (name : list N) (attrs : list (list N * list N))
| TEnd (name : list N).

(* " name="  ->  name *)
Definition attr_key (q : list N) : option (list N) :=
  match q with
  | sp :: r =>
      match rev r with
      | eq :: rk => let k := rev rk in if (sp =? 32) && (eq =? 61) && name_ok k then Some k else None
      | [] => None
      end
  | [] => None
  end.

(* what follows the last attribute: nothing (start tag), "/" or " /" (empty-element tag) *)
Definition tag_tail (t : list N) : option bool :=
  match t with
  | [] => Some false
  | _ => if list_eqb N.eqb t [47] || list_eqb N.eqb t [32; 47] then Some true else None
  end.

(* the pieces of a tag body (after the element name) between double quotes:  key, value, key, value, ..., tail *)
Fixpoint attrs_of (ps : list (list N)) : option (list (list N * list N) * bool) :=
  match ps with
  | [] => None
  | [t] => match tag_tail t with Some b => Some ([], b) | None => None end
  | q :: v :: ps' =>
      match attr_key q, unescape v, attrs_of ps' with
      | Some k, Some v', Some (l, b) => Some ((k, v') :: l, b)
      | _, _, _ => None
      end
  end.

Fixpoint nodup_keys (l : list (list N)) : bool :=
  match l with
  | [] => true
  | k :: t => negb (existsb (list_eqb N.eqb k) t) && nodup_keys t
  end.

Definition is_end_tag (body : list N) : bool := match body with c :: _ => c =? 47 | [] => false end.
Definition parse_tag (body : list N) : option token :=
  if is_end_tag body then (if name_ok (tl body) then Some (TEnd (tl body)) else None)
  else
      match split_on 34 body with
      | [] => None
      | p0 :: rest =>
          let '(nm, q0) := span_name p0 in
          if name_ok nm then
            match attrs_of (q0 :: rest) with
            | Some (l, b) =>
                if nodup_keys (map fst l) then Some (if b then TEmpty nm l else TStart nm l) else None
            | None => None
            end
          else None
      end.

Fixpoint map_opt {A B} (f : A -> option B) (l : list A) : option (list B) :=
  match l with
  | [] => Some []
  | x :: t => match f x, map_opt f t with Some y, Some r => Some (y :: r) | _, _ => None end
  end.

(* ---- 6. nesting ---- *)
(* the stack holds the open elements, innermost first: name, attributes, children so far (reversed) *)
Definition frame := (list N * list (list N * list N) * list node)%type.

Definition close_into (e : node) (st : list frame) (more : bool) : option (node + list frame) :=
  match st with
  | [] => if more then None else Some (inl e)                      (* the root is closed: nothing may follow *)
  | (pn, pa, pc) :: st' => Some (inr ((pn, pa, e :: pc) :: st'))
  end.

Fixpoint build (toks : list token) (st : list frame) : option node :=
  match toks with
  | [] => None
  | tk :: ts =>
      let more := match ts with [] => false | _ => true end in
      match tk with
      | TStart n a => build ts ((n, a, []) :: st)
      | TEmpty n a =>
          match close_into (Elem n a []) st more with
          | Some (inl e) => Some e
          | Some (inr st') => build ts st'
          | None => None
          end
      | TEnd n =>
          match st with
          | [] => None
          | (pn, pa, pc) :: st' =>
              if list_eqb N.eqb n pn then
                match close_into (Elem pn pa (rev pc)) st' more with
                | Some (inl e) => Some e
                | Some (inr st'') => build ts st''
                | None => None
                end
              else None
          end
      end
  end.

Definition xml_parse (s : list N) : option doc :=
  if chars_ok s then
    match tags s with
    | Some bodies =>
        match map_opt parse_tag bodies with
        | Some toks => build toks []
        | None => None
        end
    | None => None
    end
  else None.
