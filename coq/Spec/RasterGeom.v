(* Geometry of the six built-in module shapes, in exact rationals (Q), written from the SVG path semantics and
   independently of the model's string code. Document coordinates: one unit per module, the cell (x, y) is the unit
   square whose top-left corner is (x, y) = (column + margin, row + margin); X grows to the right, Y downwards.

   For each shape the FILLED OUTLINE of the module drawn at cell (x, y) is a predicate on points (X, Y). The sub-path
   texts are those of convert/mod.rs (Shape::square .. Shape::diamond), spelled out in Spec/SvgDoc.v [subpath]
   (Proofs/SvgShape.v [shape_fn_eq] shows that they are what the model prints, Proofs/SvgReadBack.v that the
   anchor read back from each sub-path is (x, y)).

     Square         M{x},{y}h1v1h-1                       the closed unit square [x, x+1] x [y, y+1]
     Vertical       M{x}.1,{y}h.8v1h-.8                   [x+.1, x+.9] x [y, y+1]
     Horizontal     M{x},{y}.1h1v.8h-1                    [x, x+1] x [y+.1, y+.9]
     Diamond        M{x}.5,{y}l.5,.5l-.5,.5l-.5,-.5z      the convex hull of (x+.5,y) (x+1,y+.5) (x+.5,y+1) (x,y+.5),
                                                          i.e. |X - (x+.5)| + |Y - (y+.5)| <= .5
     RoundedSquare  M{x}.2,{y}.2 {x}.8,{y}.2 {x}.8,{y}.8 {x}.2,{y}.8z  with stroke-width=".3" stroke-linejoin="round"
                    and stroke = fill (Svg.layer_tail): the square [x+.2, x+.8]^2 together with every point within
                    .15 of its boundary = every point within .15 of the square (Minkowski sum with a disc)
     Circle         M{x+1},{y}.5a.5,.5 0 1,1 0,-.1        an arc of radii .5 from P0 = (x+1, y+.5) to P1 = (x+1, y+.4),
                    large-arc = 1, sweep = 1, implicitly closed by the chord P1 P0 when filled. The chord has length
                    .1 and midpoint (x+1, y+.45); the centre of the arc is on the line Y = y+.45 at distance
                    d = sqrt(.25 - .0025) = sqrt(.2475) from the chord, and the flags (large arc, positive sweep from P0
                    upwards to P1) select the centre to the LEFT of the chord: C = (x+1-d, y+.45). The filled region is
                    the disc of radius .5 about C cut by the chord: (X - Cx)^2 + (Y - Cy)^2 <= .25 and X <= x+1.
                    d is irrational, but membership of a RATIONAL point is a rational condition: with u = X - (x+1) <= 0,
                    v = Y - (y+.45):   (u + d)^2 + v^2 <= 1/4   <=>   L <= (-2u) d,   L = u^2 + v^2 - 1/400,
                    and since -2u >= 0 this is   L <= 0  \/  L^2 <= 4 u^2 * .2475 = (99/100) u^2.
                    [circle_outline] is this exact condition. [circle_inner] and [circle_outer] are the discs through
                    P0 and P1 with the rational centre offsets .4974 < d < .4975 (.4974^2 = .24740676,
                    .4975^2 = .24750625); Proofs/Raster.v shows inner <= outline <= outer.

   All sub-paths of one <path> element have the same orientation and the fill rule is the SVG default (nonzero), so
   the region painted by a layer is the UNION of the outlines of the dark modules ([covered]).

   A pixmap of side P pixels showing a document of side S units has pixels of size h = S / P units; pixel (i, j) is the
   square [i h, (i+1) h] x [j h, (j+1) h] (resvg: uniform scale P / S, no offset, for a square document and a square
   pixmap: usvg utils.rs view_box_to_transform). *)
From Coq Require Import QArith ZArith NArith List.
From FQ Require Import Lib.Mat Model.Types.
From FQ Require Model.Svg Spec.SvgDoc.
Local Open Scope Q_scope.

Definition zq (n : Z) : Q := inject_Z n.

(* the closed rectangle [x0, x1] x [y0, y1] *)
Definition in_rect (x0 x1 y0 y1 X Y : Q) : Prop := x0 <= X /\ X <= x1 /\ y0 <= Y /\ Y <= y1.
(* the closed axis-parallel square of half-side e about (cx, cy) *)
Definition in_box (cx cy e X Y : Q) : Prop := in_rect (cx - e) (cx + e) (cy - e) (cy + e) X Y.

(* centre of the cell (x, y) *)
Definition cell_cx (x : Z) : Q := zq x + (1#2).
Definition cell_cy (y : Z) : Q := zq y + (1#2).

Definition square_outline (x y : Z) (X Y : Q) : Prop := in_rect (zq x) (zq x + 1) (zq y) (zq y + 1) X Y.
Definition vertical_outline (x y : Z) (X Y : Q) : Prop :=
  in_rect (zq x + (1#10)) (zq x + (9#10)) (zq y) (zq y + 1) X Y.
Definition horizontal_outline (x y : Z) (X Y : Q) : Prop :=
  in_rect (zq x) (zq x + 1) (zq y + (1#10)) (zq y + (9#10)) X Y.

(* the four half-planes bounded by the edges of the diamond *)
Definition diamond_outline (x y : Z) (X Y : Q) : Prop :=
  let a := X - cell_cx x in
  let b := Y - cell_cy y in
  a + b <= 1#2 /\ a - b <= 1#2 /\ - a + b <= 1#2 /\ - a - b <= 1#2.

(* some point of the polygon [x+.2, x+.8]^2 is within .15 = half the stroke width (.15^2 = 9/400) *)
Definition rounded_outline (x y : Z) (X Y : Q) : Prop :=
  exists px py : Q,
    in_rect (zq x + (1#5)) (zq x + (4#5)) (zq y + (1#5)) (zq y + (4#5)) px py /\
    (X - px) * (X - px) + (Y - py) * (Y - py) <= 9#400.

(* the same region split into its two paint operations: the filled polygon, and the stroke = every point within .15 of
   a point of the polygon's boundary (Proofs/Raster.v [rounded_split]: rounded_outline = fill or stroke). Fill and
   stroke use the same colour; they overlap in the band within .15 inside the polygon's boundary, which matters only
   for a translucent module colour (painted twice there). *)
Definition rounded_fill (x y : Z) (X Y : Q) : Prop :=
  in_rect (zq x + (1#5)) (zq x + (4#5)) (zq y + (1#5)) (zq y + (4#5)) X Y.
Definition rounded_boundary (x y : Z) (px py : Q) : Prop :=
  rounded_fill x y px py /\
  (px == zq x + (1#5) \/ px == zq x + (4#5) \/ py == zq y + (1#5) \/ py == zq y + (4#5)).
Definition rounded_stroke (x y : Z) (X Y : Q) : Prop :=
  exists px py : Q, rounded_boundary x y px py /\ (X - px) * (X - px) + (Y - py) * (Y - py) <= 9#400.

(* u, v: coordinates relative to the midpoint (x+1, y+.45) of the chord *)
Definition circle_u (x : Z) (X : Q) : Q := X - (zq x + 1).
Definition circle_v (y : Z) (Y : Q) : Q := Y - (zq y + (9#20)).
Definition circle_L (u v : Q) : Q := u * u + v * v - (1#400).

Definition circle_outline (x y : Z) (X Y : Q) : Prop :=
  let u := circle_u x X in
  let v := circle_v y Y in
  let L := circle_L u v in
  u <= 0 /\ (L <= 0 \/ L * L <= (99#100) * (u * u)).

(* the segment, left of the chord, of the disc through P0 and P1 whose centre is (x+1-delta, y+.45):
   (u + delta)^2 + v^2 <= delta^2 + 1/400 *)
Definition circle_pencil (delta : Q) (x y : Z) (X Y : Q) : Prop :=
  let u := circle_u x X in
  let v := circle_v y Y in
  u <= 0 /\ (u + delta) * (u + delta) + v * v <= delta * delta + (1#400).
Definition circle_inner := circle_pencil (4974#10000).
Definition circle_outer := circle_pencil (4975#10000).

Definition outline (s : Svg.shape) : Z -> Z -> Q -> Q -> Prop :=
  match s with
  | Svg.Square => square_outline
  | Svg.Circle => circle_outline
  | Svg.RoundedSquare => rounded_outline
  | Svg.Vertical => vertical_outline
  | Svg.Horizontal => horizontal_outline
  | Svg.Diamond => diamond_outline
  end.

(* the region painted by a layer of shape s: the union of the outlines of the dark cells *)
Definition covered (s : Svg.shape) (dark : Z -> Z -> Prop) (X Y : Q) : Prop :=
  exists x y : Z, dark x y /\ outline s x y X Y.

(* the dark cells of the document produced for the matrix m of size n with the configuration c: module (row, col) is
   drawn at cell (col + margin, row + margin) (Spec/SvgDoc.v [module_subpath], Proofs/SvgReadBack.v [path_anchors]) *)
Definition doc_dark (c : Svg.cfg) (n : nat) (m : qmat) (x y : Z) : Prop :=
  exists r col : nat,
    In (r, col) (SvgDoc.dark n m) /\
    x = Z.of_N (N.of_nat col + Svg.c_margin c) /\ y = Z.of_N (N.of_nat r + Svg.c_margin c).

(* half-side of an axis-parallel square about the cell centre that the outline is shown to contain *)
Definition clearance (s : Svg.shape) : Q :=
  match s with
  | Svg.Square => 1#2
  | Svg.Circle => 3#10
  | Svg.RoundedSquare => 2#5
  | Svg.Vertical => 2#5
  | Svg.Horizontal => 2#5
  | Svg.Diamond => 1#4
  end.

(* ------------------------------------------------------------------------------------------------------------ *)
(* pixels                                                                                                        *)

(* the closed pixel square with lower corner (a, b) and side h *)
Definition in_pixel (a b h X Y : Q) : Prop := in_rect a (a + h) b (b + h) X Y.
(* its interior *)
Definition in_pixel_interior (a b h X Y : Q) : Prop := a < X /\ X < a + h /\ b < Y /\ Y < b + h.

(* pixel size of a pixmap of side P showing a document of side S; lower coordinate of pixel index i *)
Definition pixel_size (P S : positive) : Q := Zpos S # P.
Definition pixel_lo (P S : positive) (i : Z) : Q := zq i * pixel_size P S.
(* the index of the pixel containing the centre of cell x: floor ((x + 1/2) * P / S) *)
Definition centre_pixel (P S : positive) (x : Z) : Z := ((2 * x + 1) * Zpos P) / (2 * Zpos S).
