(* The penalty the crate documents, written declaratively. A cell is (in_encoding_region, value).
   - rows and columns: N-2 for every maximal run of N >= 5 consecutive encoding-region cells of equal value
     (a cell outside the encoding region breaks a run), 40 for every window of seven consecutive encoding-region
     cells with values 1011101;
   - 3 for every 2x2 block of four encoding-region cells of equal value;
   - 10 for every 5% step of the dark-module percentage (over all cells) away from 50%. *)
From Coq Require Import NArith List Bool Arith.
From FQ Require Import Lib.ListX.
Import ListNotations.
Local Open Scope N_scope.

Definition pcell := (bool * bool)%type.   (* (is encoding region, value) *)

(* runs: scan with the current run (value, length) *)
Fixpoint runs_from (cur : option (bool * N)) (l : list pcell) : N :=
  let close := match cur with Some (_, k) => if 5 <=? k then k - 2 else 0 | None => 0 end in
  match l with
  | [] => close
  | (d, v) :: t =>
      if negb d then close + runs_from None t
      else match cur with
           | Some (cv, k) => if Bool.eqb cv v then runs_from (Some (cv, k + 1)) t else close + runs_from (Some (v, 1)) t
           | None => runs_from (Some (v, 1)) t
           end
  end.
Definition runs_penalty (l : list pcell) : N := runs_from None l.

Definition window_pattern : list bool := [true; false; true; true; true; false; true].
Definition window_here (l : list pcell) : bool :=
  (7 <=? length l)%nat && forallb fst (firstn 7 l) && list_eqb Bool.eqb (map snd (firstn 7 l)) window_pattern.
Fixpoint windows (l : list pcell) : N :=
  match l with
  | [] => 0
  | _ :: t => (if window_here l then 1 else 0) + windows t
  end.
Definition line_penalty (l : list pcell) : N := 40 * windows l + runs_penalty l.

Fixpoint block_row (r1 r2 : list pcell) : N :=
  match r1, r2 with
  | a :: ((b :: _) as t1), c :: ((d :: _) as t2) =>
      (if fst a && fst b && fst c && fst d && Bool.eqb (snd a) (snd b) && Bool.eqb (snd a) (snd c) && Bool.eqb (snd a) (snd d)
       then 1 else 0) + block_row t1 t2
  | _, _ => 0
  end.
Fixpoint blocks (m : list (list pcell)) : N :=
  match m with
  | r1 :: ((r2 :: _) as t) => block_row r1 r2 + blocks t
  | _ => 0
  end.

Definition transpose_rows {A} (d : A) (n : nat) (m : list (list A)) : list (list A) :=
  map (fun c => map (fun r => nth c (nth r m []) d) (seq 0 n)) (seq 0 n).

Definition dark_count (m : list (list pcell)) : N :=
  sumN (map (fun row => N.of_nat (length (filter snd row))) m).
Definition ratio_penalty (n : nat) (m : list (list pcell)) : N :=
  let p := (dark_count m * 100) / (N.of_nat n * N.of_nat n) in
  10 * (if p <? 50 then (49 - p) / 5 else (p - 50) / 5).

Definition iso_penalty (m : list (list pcell)) : N :=
  let n := length m in
  sumN (map line_penalty m) + sumN (map line_penalty (transpose_rows (false, false) n m))
  + 3 * blocks m + ratio_penalty n m.

(* on module bytes: encoding region = type code 0 *)
Definition pcell_of_byte (b : N) : pcell := (N.eqb (N.div2 b) 0, N.odd b).
Definition oracle_penalty (m : list (list N)) : N := iso_penalty (map (map pcell_of_byte) m).

(* parts of the documented penalty, for comparison with the parts the implementation computes *)
Definition oracle_penalty_parts (m : list (list N)) : N * N * N :=
  let pm := map (map pcell_of_byte) m in
  let n := length m in
  let pt := transpose_rows (false, false) n pm in
  (sumN (map runs_penalty pm) + sumN (map runs_penalty pt),
   40 * (sumN (map windows pm) + sumN (map windows pt)),
   ratio_penalty n pm).
Definition oracle_line (l : list N) : N * N := let pl := map pcell_of_byte l in (40 * windows pl, runs_penalty pl).
