(* ISO/IEC 18004 written down independently of fast_qr: geometry and function-pattern region map (with the Annex E
   alignment centres as a closed formula), BCH(15,5) / BCH(18,6) words, Table 10 mask conditions, module read order,
   Table 3 count widths, Table 5 alphanumeric values, the 7.4 bit-stream encoding, Table 9 de-interleaving, and the
   reference decoder. Nothing here mentions the model or the generated tables. Versions are indices v = 0..39
   (version number v+1); levels are 0..3 = L, M, Q, H. *)
From Coq Require Import NArith List Bool Arith.
From FQ Require Import Lib.ListX Spec.IsoTable9.
Import ListNotations.

(* ---------------------------------------------------------------- geometry *)
Definition iso_size (v : nat) : nat := 17 + 4 * (v + 1).

(* Annex E alignment centres, closed form *)
Definition iso_align_centres (v : nat) : list nat :=
  let ver := v + 1 in
  if ver =? 1 then [] else
  let num := ver / 7 + 2 in
  let step := if ver =? 32 then 26 else ((ver * 4 + num * 2 + 1) / (num * 2 - 2)) * 2 in
  let n := iso_size v in
  6 :: map (fun k => n - 7 - (num - 2 - k) * step) (seq 0 (num - 1)).

Inductive region :=
| RFinder (dark : bool) | RSeparator | RTiming (dark : bool) | RAlign (dark : bool)
| RDark | RFormat | RVersion | RData.

(* computed over binary numbers (N) so that the kernel can evaluate it on every cell of every version *)
Definition absdiffN (a b : N) : N := if (a <=? b)%N then (b - a)%N else (a - b)%N.
Definition chebN (a b c d : N) : N := N.max (absdiffN a c) (absdiffN b d).
(* the alignment centre within distance 2 of coordinate x, if any (centres are more than 4 apart) *)
Definition near_centre (cs : list N) (x : N) : option N := find (fun a => (absdiffN a x <=? 2)%N) cs.

Definition iso_region_with (cs : list N) (last : N) (ver n r c : N) : region :=
  (* finder patterns: 7x7 at three corners; concentric: dark unless at Chebyshev distance 2 from the centre *)
  (if (r <? 7) && (c <? 7) then RFinder (negb (chebN r c 3 3 =? 2))
  else if (r <? 7) && (n - 7 <=? c) then RFinder (negb (chebN r c 3 (n - 4) =? 2))
  else if (n - 7 <=? r) && (c <? 7) then RFinder (negb (chebN r c (n - 4) 3 =? 2))
  (* separators: the rest of the 8x8 corner boxes *)
  else if ((r <? 8) && (c <? 8)) || ((r <? 8) && (n - 8 <=? c)) || ((n - 8 <=? r) && (c <? 8)) then RSeparator
  (* dark module *)
  else if (r =? n - 8) && (c =? 8) then RDark
  (* format information: row 8 / column 8 next to the finders (timing cells at index 6 excluded) *)
  else if ((r =? 8) && ((c <=? 8) || (n - 8 <=? c)) && negb (c =? 6))
       || ((c =? 8) && ((r <=? 8) || (n - 7 <=? r)) && negb (r =? 6)) then RFormat
  (* version information, versions 7..40 *)
  else if (7 <=? ver) && (((r <? 6) && (n - 11 <=? c) && (c <? n - 8)) || ((c <? 6) && (n - 11 <=? r) && (r <? n - 8))) then RVersion
  else
    (* alignment patterns: 5x5 around every pair of centres except the three that would overlap a finder *)
    match near_centre cs r, near_centre cs c with
    | Some cy, Some cx =>
        if ((cy =? 6) && (cx =? 6)) || ((cy =? 6) && (cx =? last)) || ((cy =? last) && (cx =? 6))
        then (if r =? 6 then RTiming (N.even c) else if c =? 6 then RTiming (N.even r) else RData)
        else RAlign (negb (chebN r c cy cx =? 1))
    | _, _ =>
        if r =? 6 then RTiming (N.even c)
        else if c =? 6 then RTiming (N.even r)
        else RData
    end)%N.

Definition iso_centresN (v : nat) : list N := map N.of_nat (iso_align_centres v).
Definition iso_region (v r c : nat) : region :=
  let cs := iso_centresN v in
  iso_region_with cs (List.last cs 0%N) (N.of_nat (v + 1)) (N.of_nat (iso_size v)) (N.of_nat r) (N.of_nat c).

(* the whole map at once (centres computed once) *)
Definition iso_region_map (v : nat) : list (list region) :=
  let cs := iso_centresN v in
  let last := List.last cs 0%N in
  let n := N.of_nat (iso_size v) in
  let ver := N.of_nat (v + 1) in
  let idx := map N.of_nat (seq 0 (iso_size v)) in
  map (fun r => map (fun c => iso_region_with cs last ver n r c) idx) idx.

Definition is_rdata (x : region) : bool := match x with RData => true | _ => false end.

(* ---------------------------------------------------------------- read order (7.7.3) *)
(* two-module-wide columns from the right, skipping the vertical timing column; upwards first, alternating;
   in each row of a column pair the right module comes first *)
Definition iso_pair_col (n i : nat) : nat := let x := n - 1 - 2 * i in if x <=? 6 then x - 1 else x.
Definition iso_order (n : nat) : list (nat * nat) :=
  flat_map (fun i =>
    let x := iso_pair_col n i in
    flat_map (fun r => [(r, x); (r, x - 1)]) (if Nat.even i then rev (seq 0 n) else seq 0 n))
  (seq 0 ((n - 1) / 2)).
Definition iso_data_coords (v : nat) : list (nat * nat) :=
  let rm := iso_region_map v in
  filter (fun p => is_rdata (nth (snd p) (nth (fst p) rm []) RSeparator)) (iso_order (iso_size v)).

(* total codewords and remainder bits, derived from the geometry *)
Definition iso_total_codewords (v : nat) : nat := length (iso_data_coords v) / 8.
Definition iso_remainder_bits (v : nat) : nat := length (iso_data_coords v) mod 8.

(* ---------------------------------------------------------------- Table 10 *)
(* i = row, j = column; evaluated over binary numbers *)
Definition iso_condN (mask : nat) (i j : N) : bool :=
  match mask with
  | 0 => ((i + j) mod 2 =? 0)%N
  | 1 => (i mod 2 =? 0)%N
  | 2 => (j mod 3 =? 0)%N
  | 3 => ((i + j) mod 3 =? 0)%N
  | 4 => ((i / 2 + j / 3) mod 2 =? 0)%N
  | 5 => ((i * j) mod 2 + (i * j) mod 3 =? 0)%N
  | 6 => (((i * j) mod 2 + (i * j) mod 3) mod 2 =? 0)%N
  | _ => (((i + j) mod 2 + (i * j) mod 3) mod 2 =? 0)%N
  end.
Definition iso_cond (mask i j : nat) : bool := iso_condN mask (N.of_nat i) (N.of_nat j).

(* ---------------------------------------------------------------- BCH words *)
(* remainder of x (deg < total bits) modulo generator g of degree d, over GF(2), most significant bit first *)
Fixpoint bch_rem (fuel : nat) (x g : N) (gdeg : N) : N :=
  match fuel with
  | O => x
  | S f => if (N.log2 x <? gdeg)%N || (x =? 0)%N then x
           else bch_rem f (N.lxor x (N.shiftl g (N.log2 x - gdeg))) g gdeg
  end.
Definition iso_level_bits (l : nat) : N := match l with 0 => 1%N | 1 => 0%N | 2 => 3%N | _ => 2%N end.
Definition iso_format_word (l mask : nat) : N :=
  let d := (iso_level_bits l * 8 + N.of_nat mask)%N in
  N.lxor (N.lor (N.shiftl d 10) (bch_rem 16 (N.shiftl d 10) 1335 10)) 21522.   (* 0x537, 0x5412 *)
Definition iso_version_word (v : nat) : N :=
  let d := N.of_nat (v + 1) in
  N.lor (N.shiftl d 12) (bch_rem 20 (N.shiftl d 12) 7973 12).                      (* 0x1F25 *)

(* positions of format bit k (0 = least significant) : copy 1 around the top-left finder, copy 2 split *)
Definition iso_format_pos1 (k : nat) : nat * nat :=
  if k <=? 5 then (k, 8) else if k =? 6 then (7, 8) else if k =? 7 then (8, 8) else if k =? 8 then (8, 7) else (8, 14 - k).
Definition iso_format_pos2 (n k : nat) : nat * nat :=
  if k <=? 7 then (8, n - 1 - k) else (n - 15 + k, 8).
(* positions of version bit k: 6x3 block top-right, 3x6 block bottom-left *)
Definition iso_version_pos1 (n k : nat) : nat * nat := (k / 3, n - 11 + k mod 3).
Definition iso_version_pos2 (n k : nat) : nat * nat := (n - 11 + k mod 3, k / 3).

(* ---------------------------------------------------------------- matrices of module values *)
Definition bmat := list (list bool).
Definition bget (m : bmat) (r c : nat) : bool := nth c (nth r m []) false.
Definition read_word (m : bmat) (pos : nat -> nat * nat) (nbits : nat) : N :=
  fold_right (fun k acc => (2 * acc + (if bget m (fst (pos k)) (snd (pos k)) then 1 else 0))%N) 0%N (seq 0 nbits).

(* ---------------------------------------------------------------- bits and bytes *)
(* w bits of x, most significant first *)
Fixpoint be_bits (w : nat) (x : N) : list bool :=
  match w with O => [] | S w' => N.testbit x (N.of_nat w') :: be_bits w' x end.
Fixpoint bits_val (l : list bool) : N :=
  match l with [] => 0 | b :: t => ((if b then 1 else 0) * 2 ^ N.of_nat (length t) + bits_val t)%N end.
Definition bytes_bits (l : list N) : list bool := flat_map (be_bits 8) l.
Definition bits_bytes (l : list bool) : list N := map bits_val (chunks 8 l).

(* ---------------------------------------------------------------- Table 3, Table 5, 7.4 *)
Definition iso_mode_indicator (m : nat) : N := match m with 0 => 1%N | 1 => 2%N | _ => 4%N end.
Definition iso_cci (m v : nat) : nat :=
  let ver := v + 1 in
  match m with
  | 0 => if ver <=? 9 then 10 else if ver <=? 26 then 12 else 14
  | 1 => if ver <=? 9 then 9 else if ver <=? 26 then 11 else 13
  | _ => if ver <=? 9 then 8 else 16
  end.
(* Table 5: 0-9, A-Z, space $ % * + - . / : *)
Definition iso_alnum_chars : list N :=
  [48;49;50;51;52;53;54;55;56;57;65;66;67;68;69;70;71;72;73;74;75;76;77;78;79;80;81;82;83;84;85;86;87;88;89;90;32;36;37;42;43;45;46;47;58]%N.
Definition iso_alnum_value (c : N) : option nat := find_index (N.eqb c) iso_alnum_chars.
Definition iso_is_digit (c : N) : bool := (48 <=? c)%N && (c <=? 57)%N.
Definition iso_is_alnum (c : N) : bool := match iso_alnum_value c with Some _ => true | None => false end.

Definition dig (c : N) : N := (c - 48)%N.
Fixpoint iso_numeric_bits (l : list N) : list bool :=
  match l with
  | a :: b :: c :: t => be_bits 10 (dig a * 100 + dig b * 10 + dig c) ++ iso_numeric_bits t
  | [a; b] => be_bits 7 (dig a * 10 + dig b)
  | [a] => be_bits 4 (dig a)
  | [] => []
  end.
Definition av (c : N) : N := match iso_alnum_value c with Some k => N.of_nat k | None => 0%N end.
Fixpoint iso_alnum_bits (l : list N) : list bool :=
  match l with
  | a :: b :: t => be_bits 11 (av a * 45 + av b) ++ iso_alnum_bits t
  | [a] => be_bits 6 (av a)
  | [] => []
  end.
Definition iso_payload_bits (m : nat) (input : list N) : list bool :=
  match m with
  | 0 => iso_numeric_bits input
  | 1 => iso_alnum_bits input
  | _ => flat_map (be_bits 8) input
  end.
Definition iso_segment_bits (m v : nat) (input : list N) : list bool :=
  be_bits 4 (iso_mode_indicator m) ++ be_bits (iso_cci m v) (N.of_nat (length input)) ++ iso_payload_bits m input.

(* number of payload bits as a function of the length only *)
Definition iso_payload_len (m : nat) (n : N) : N :=
  match m with
  | 0 => (10 * (n / 3) + (if n mod 3 =? 0 then 0 else if n mod 3 =? 1 then 4 else 7))%N
  | 1 => (11 * (n / 2) + 6 * (n mod 2))%N
  | _ => (8 * n)%N
  end.
Definition iso_need (m v : nat) (n : N) : N := (4 + N.of_nat (iso_cci m v) + iso_payload_len m n)%N.

(* ---------------------------------------------------------------- Table 9 accessors *)
Definition iso_ec (v l : nat) : nat := N.to_nat (nth l (nth v iso_ec_per_block []) 0%N).
Definition iso_layout (v l : nat) : nat * nat * nat * nat :=
  let '(d1, g1, d2, g2) := nth l (nth v iso_blocks []) (0, 0, 0, 0)%N in
  (N.to_nat d1, N.to_nat g1, N.to_nat d2, N.to_nat g2).
Definition iso_data_codewords (v l : nat) : nat := let '(d1, g1, d2, g2) := iso_layout v l in d1 * g1 + d2 * g2.
Definition iso_capacity_bits (v l : nat) : N := (8 * N.of_nat (iso_data_codewords v l))%N.
Definition iso_fits (m l : nat) (n : N) (v : nat) : bool := (iso_need m v n <=? iso_capacity_bits v l)%N.
Definition iso_min_version (m l : nat) (n : N) : option nat := find (iso_fits m l n) (seq 0 40).

(* pad codewords 11101100, 00010001 alternating *)
Fixpoint iso_pads (k : nat) (first : bool) : list N :=
  match k with O => [] | S k' => (if first then 236 else 17)%N :: iso_pads k' (negb first) end.
(* the data codewords of one segment: segment bits, terminator of min(4, remaining) zeros, zeros to the byte boundary, pads *)
Definition iso_codewords (m v l : nat) (input : list N) : list N :=
  let d := iso_data_codewords v l in
  let seg := iso_segment_bits m v input in
  let term := repeat false (Nat.min 4 (8 * d - length seg)) in
  let s1 := seg ++ term in
  let s2 := s1 ++ repeat false ((8 - length s1 mod 8) mod 8) in
  let bytes := bits_bytes s2 in
  bytes ++ iso_pads (d - length bytes) true.

(* ---------------------------------------------------------------- de-interleaving (7.6) *)
(* block b (0-based, group-1 blocks first) has d1 (b < g1) or d2 = d1 + 1 data codewords; data codeword i of block b
   sits at i * B + b while i < d1, and the extra codeword of a group-2 block at d1 * B + (b - g1);
   EC codeword j of block b sits at D + j * B + b *)
Definition iso_block_data (v l : nat) (cw : list N) (b : nat) : list N :=
  let '(d1, g1, d2, g2) := iso_layout v l in
  let B := g1 + g2 in
  map (fun i => nth (if i <? d1 then i * B + b else d1 * B + (b - g1)) cw 0%N) (seq 0 (if b <? g1 then d1 else d2)).
Definition iso_block_ec (v l : nat) (cw : list N) (b : nat) : list N :=
  let '(d1, g1, d2, g2) := iso_layout v l in
  let B := g1 + g2 in
  map (fun j => nth (iso_data_codewords v l + j * B + b) cw 0%N) (seq 0 (iso_ec v l)).
Definition iso_blocks_of (v l : nat) (cw : list N) : list (list N * list N) :=
  let '(d1, g1, d2, g2) := iso_layout v l in
  map (fun b => (iso_block_data v l cw b, iso_block_ec v l cw b)) (seq 0 (g1 + g2)).
Definition iso_deinterleave_data (v l : nat) (cw : list N) : list N :=
  flat_map fst (iso_blocks_of v l cw).

(* ---------------------------------------------------------------- reference decoder *)
Record decoded := { d_version : nat; d_level : nat; d_mask : nat; d_segments : list (nat * list N) }.

Definition iso_find_format (w : N) : option (nat * nat) :=
  find (fun p : nat * nat => (iso_format_word (fst p) (snd p) =? w)%N) (list_prod (seq 0 4) (seq 0 8)).

Definition iso_unmasked_bits (v mask : nat) (m : bmat) : list bool :=
  map (fun p : nat * nat => xorb (bget m (fst p) (snd p)) (iso_cond mask (fst p) (snd p))) (iso_data_coords v).

(* digits of a group back to ASCII; None when the group value is out of range *)
Definition digits3 (x : N) : option (list N) :=
  if (x <? 1000)%N then Some [48 + x / 100; 48 + (x / 10) mod 10; 48 + x mod 10]%N else None.
Definition digits2 (x : N) : option (list N) := if (x <? 100)%N then Some [48 + x / 10; 48 + x mod 10]%N else None.
Definition digits1 (x : N) : option (list N) := if (x <? 10)%N then Some [48 + x]%N else None.

Definition take_val (w : nat) (bits : list bool) : option (N * list bool) :=
  if length bits <? w then None else Some (bits_val (firstn w bits), skipn w bits).

Fixpoint parse_numeric (count : nat) (fuel : nat) (bits : list bool) : option (list N * list bool) :=
  match fuel with
  | O => None
  | S f =>
      match count with
      | 0 => Some ([], bits)
      | 1 => match take_val 4 bits with Some (x, r) => option_map (fun d => (d, r)) (digits1 x) | None => None end
      | 2 => match take_val 7 bits with Some (x, r) => option_map (fun d => (d, r)) (digits2 x) | None => None end
      | S (S (S c)) =>
          match take_val 10 bits with
          | Some (x, r) =>
              match digits3 x, parse_numeric c f r with
              | Some d, Some (t, r') => Some (d ++ t, r')
              | _, _ => None
              end
          | None => None
          end
      end
  end.

Definition alnum_char (k : N) : option N := nth_error iso_alnum_chars (N.to_nat k).
Fixpoint parse_alnum (count : nat) (fuel : nat) (bits : list bool) : option (list N * list bool) :=
  match fuel with
  | O => None
  | S f =>
      match count with
      | 0 => Some ([], bits)
      | 1 => match take_val 6 bits with
             | Some (x, r) => option_map (fun ch => ([ch], r)) (alnum_char x)
             | None => None end
      | S (S c) =>
          match take_val 11 bits with
          | Some (x, r) =>
              match alnum_char (x / 45), alnum_char (x mod 45), (x <? 2025)%N, parse_alnum c f r with
              | Some a, Some b, true, Some (t, r') => Some (a :: b :: t, r')
              | _, _, _, _ => None
              end
          | None => None
          end
      end
  end.

Fixpoint parse_bytes (count : nat) (bits : list bool) : option (list N * list bool) :=
  match count with
  | O => Some ([], bits)
  | S c => match take_val 8 bits with
           | Some (x, r) => match parse_bytes c r with Some (t, r') => Some (x :: t, r') | None => None end
           | None => None
           end
  end.

(* segments until the terminator (0000, or fewer than 4 bits left); None on anything malformed *)
Fixpoint parse_segments (fuel : nat) (v : nat) (bits : list bool) : option (list (nat * list N)) :=
  match fuel with
  | O => None
  | S f =>
      if length bits <? 4 then (if forallb negb bits then Some [] else None) else
      let ind := bits_val (firstn 4 bits) in
      let rest := skipn 4 bits in
      if (ind =? 0)%N then Some [] else
      let mo := if (ind =? 1)%N then Some 0 else if (ind =? 2)%N then Some 1 else if (ind =? 4)%N then Some 2 else None in
      match mo with
      | None => None
      | Some m =>
          match take_val (iso_cci m v) rest with
          | None => None
          | Some (cnt, r) =>
              let count := N.to_nat cnt in
              let seg := match m with
                         | 0 => parse_numeric count (S count) r
                         | 1 => parse_alnum count (S count) r
                         | _ => parse_bytes count r
                         end in
              match seg with
              | None => None
              | Some (payload, r') =>
                  match parse_segments f v r' with
                  | Some more => Some ((m, payload) :: more)
                  | None => None
                  end
              end
          end
      end
  end.

Definition iso_decode (m : bmat) : option decoded :=
  let n := length m in
  if negb ((21 <=? n) && (n <=? 177) && ((n - 17) mod 4 =? 0)) then None else
  let v := (n - 21) / 4 in
  match iso_find_format (read_word m iso_format_pos1 15) with
  | None => None
  | Some (l, mask) =>
      let bits := iso_unmasked_bits v mask m in
      let cw := bits_bytes (firstn (8 * iso_total_codewords v) bits) in
      let data := iso_deinterleave_data v l cw in
      let dbits := bytes_bits data in
      match parse_segments (S (length dbits)) v dbits with
      | None => None
      | Some segs => Some {| d_version := v; d_level := l; d_mask := mask; d_segments := segs |}
      end
  end.
