(* The document that SvgBuilder::to_str is expected to produce, as an XML tree (Spec/Xml.v), written without the
   format templates: element and attribute names and the per-shape sub-path texts are spelled out here.
   Numbers are printed with the model's printers (Svg.dec, Svg.rgba2hex, Svg.fx_to_string, Svg.fx_fixed2), whose
   meaning is fixed by separate read-back lemmas (Proofs/SvgWellFormed.v: number_of_dec, rgba_of_hex);
   the frame geometry (Svg.image_geometry) is the subject of property C18 (Proofs/ImageFrame.v). *)
From Coq Require Import NArith ZArith List Bool Arith String Ascii.
From FQ Require Import Lib.ListX Lib.Mat Model.Types Model.Svg Spec.Xml.
Import ListNotations.
Local Open Scope N_scope.

(* ASCII text as bytes *)
Definition bs (s : string) : list N := map N_of_ascii (list_ascii_of_string s).
Arguments bs s%string.

(* S = size + 2 * margin *)
Definition side (c : cfg) (n : nat) : N := N.of_nat n + 2 * c_margin c.

(* the dark modules, row by row: (row, column) *)
Definition cells (n : nat) : list (nat * nat) := list_prod (seq 0 n) (seq 0 n).
Definition dark (n : nat) (m : qmat) : list (nat * nat) :=
  filter (fun p => snd (qget m (fst p) (snd p))) (cells n).

(* the sub-path (after its 'M') drawn for a module whose top-left corner is (x, y) *)
Definition subpath (s : shape) (x y : N) : list N :=
  match s with
  | Square => dec x ++ bs "," ++ dec y ++ bs "h1v1h-1"
  | Circle => dec (x + 1) ++ bs "," ++ dec y ++ bs ".5a.5,.5 0 1,1 0,-.1"
  | RoundedSquare =>
      dec x ++ bs ".2," ++ dec y ++ bs ".2 " ++ dec x ++ bs ".8," ++ dec y ++ bs ".2 "
      ++ dec x ++ bs ".8," ++ dec y ++ bs ".8 " ++ dec x ++ bs ".2," ++ dec y ++ bs ".8z"
  | Vertical => dec x ++ bs ".1," ++ dec y ++ bs "h.8v1h-.8"
  | Horizontal => dec x ++ bs "," ++ dec y ++ bs ".1h1v.8h-1"
  | Diamond => dec x ++ bs ".5," ++ dec y ++ bs "l.5,.5l-.5,.5l-.5,-.5z"
  end.

(* one sub-path per dark module, in row-major order, anchored at (column + margin, row + margin) *)
Definition module_subpath (c : cfg) (s : shape) (p : nat * nat) : list N :=
  subpath s (N.of_nat (snd p) + c_margin c) (N.of_nat (fst p) + c_margin c).
Definition path_d (c : cfg) (s : shape) (n : nat) (m : qmat) : list N :=
  flat_map (fun p => bs "M" ++ module_subpath c s p) (dark n m).

Definition layer_fill (c : cfg) (l : shape * option rgba) : list N :=
  rgba2hex (match snd l with Some x => x | None => c_dot_color c end).

Definition layer_elem (c : cfg) (n : nat) (m : qmat) (l : shape * option rgba) : node :=
  Elem (bs "path")
    ([(bs "d", path_d c (fst l) n m)]
     ++ (match fst l with
         | RoundedSquare =>
             [(bs "stroke-width", bs ".3"); (bs "stroke-linejoin", bs "round"); (bs "stroke", layer_fill c l)]
         | _ => []
         end)
     ++ [(bs "fill", layer_fill c l)])
    [].

(* the layers: those given, or a single square layer in the module colour *)
Definition layers (c : cfg) : list (shape * option rgba) :=
  match c_layers c with [] => [(Square, None)] | l => l end.

Definition frame_elem (c : cfg) (px py border : fx) : node :=
  Elem (bs "rect")
    ([(bs "x", fx_to_string px); (bs "y", fx_to_string py);
      (bs "width", fx_to_string border); (bs "height", fx_to_string border);
      (bs "fill", rgba2hex (c_image_background_color c))]
     ++ match c_image_background_shape c with
        | ISquare => []
        | ICircle => [(bs "rx", bs "1000px")]
        | IRoundedSquare => [(bs "rx", bs "1px")]
        end)
    [].

Local Open Scope Z_scope.
Definition image_elem (px py border isz : fx) (img : list N) : node :=
  Elem (bs "image")
    [(bs "x", fx_fixed2 (px + (border - isz) / 2)); (bs "y", fx_fixed2 (py + (border - isz) / 2));
     (bs "width", fx_fixed2 isz); (bs "height", fx_fixed2 isz);
     (bs "href", img)]
    [].
Local Open Scope N_scope.

(* when an image is set: the frame rectangle, then exactly one image element whose href is the given string *)
Definition image_elems (c : cfg) (n : nat) : list node :=
  match c_image c with
  | None => []
  | Some img =>
      let v := match version_from_n (N.of_nat n) with Some v => v | None => O end in
      let '(px, py, border, isz) := image_geometry c (N.of_nat n) v in
      [frame_elem c px py border; image_elem px py border isz img]
  end.

Definition expected_doc (c : cfg) (n : nat) (m : qmat) : doc :=
  Elem (bs "svg")
    [(bs "viewBox", bs "0 0 " ++ dec (side c n) ++ bs " " ++ dec (side c n));
     (bs "xmlns", bs "http://www.w3.org/2000/svg")]
    (Elem (bs "rect")
       [(bs "width", dec (side c n) ++ bs "px"); (bs "height", dec (side c n) ++ bs "px");
        (bs "fill", rgba2hex (c_background_color c))] []
     :: map (layer_elem c n m) (layers c)
     ++ image_elems c n).

(* the configurations covered: colours are byte quadruples, the image string is valid UTF-8 made of XML characters
   (tab, LF, CR, U+0020..U+D7FF, U+E000..U+FFFD, U+10000..U+10FFFF) *)
Definition opt_rgba_ok (o : option rgba) : bool := match o with Some x => rgba_ok x | None => true end.
Definition cfg_ok (c : cfg) : bool :=
  rgba_ok (c_background_color c) && rgba_ok (c_dot_color c) && rgba_ok (c_image_background_color c)
  && forallb (fun l => opt_rgba_ok (snd l)) (c_layers c)
  && match c_image c with Some img => chars_ok img | None => true end.

(* ------------------------------------------------------------------------------------------------------------ *)
(* reading attribute values back (used to state what the printed texts mean; Proofs/SvgReadBack.v)               *)

(* leading decimal digits as a number, and the rest of the text *)
Fixpoint take_num_aux (s : list N) (a : N) : N * list N :=
  match s with
  | [] => (a, [])
  | ch :: t => if is_digit ch then take_num_aux t (10 * a + (ch - 48)) else (a, s)
  end.
Definition take_num (s : list N) : N * list N := take_num_aux s 0.

Fixpoint drop_until (ch : N) (s : list N) : list N :=
  match s with
  | [] => []
  | x :: t => if x =? ch then t else drop_until ch t
  end.

(* the anchor (x, y) = top-left corner of the module drawn by a sub-path: the first number, the first number after
   the first comma (the circle starts at x + 1), accepted only when the whole text is the sub-path of that module *)
Definition anchor (s : shape) (text : list N) : option (N * N) :=
  let '(a, r) := take_num text in
  let '(b, _) := take_num (drop_until 44 r) in
  let x := match s with Circle => a - 1 | _ => a end in
  if list_eqb N.eqb text (subpath s x b) then Some (x, b) else None.

(* the sub-paths of a path: the pieces after each 'M' *)
Definition subpaths (d : list N) : list (list N) := tl (split_on 77 d).

(* #rrggbb or #rrggbbaa, lower-case *)
Definition unhexdig (ch : N) : option N :=
  if (48 <=? ch) && (ch <=? 57) then Some (ch - 48)
  else if (97 <=? ch) && (ch <=? 102) then Some (ch - 87) else None.
Definition unhex2 (hi lo : N) : option N :=
  match unhexdig hi, unhexdig lo with Some h, Some l => Some (16 * h + l) | _, _ => None end.
Definition color_of_hex (s : list N) : option rgba :=
  match s with
  | [h; r1; r2; g1; g2; b1; b2] =>
      if h =? 35 then
        match unhex2 r1 r2, unhex2 g1 g2, unhex2 b1 b2 with
        | Some r, Some g, Some b => Some {| c_r := r; c_g := g; c_b := b; c_a := 255 |}
        | _, _, _ => None
        end
      else None
  | [h; r1; r2; g1; g2; b1; b2; a1; a2] =>
      if h =? 35 then
        match unhex2 r1 r2, unhex2 g1 g2, unhex2 b1 b2, unhex2 a1 a2 with
        | Some r, Some g, Some b, Some a => Some {| c_r := r; c_g := g; c_b := b; c_a := a |}
        | _, _, _, _ => None
        end
      else None
  | _ => None
  end.

(* a decimal number with at most three decimals, as a count of thousandths:  -?digits(.d|.dd|.ddd)?  *)
Definition digit_val (ch : N) : option Z := if is_digit ch then Some (Z.of_N (ch - 48)) else None.
Local Open Scope Z_scope.
Definition read_frac (ds : list N) : option Z :=
  match ds with
  | [a] => match digit_val a with Some x => Some (100 * x) | None => None end
  | [a; b] => match digit_val a, digit_val b with Some x, Some y => Some (100 * x + 10 * y) | _, _ => None end
  | [a; b; c] =>
      match digit_val a, digit_val b, digit_val c with
      | Some x, Some y, Some z => Some (100 * x + 10 * y + z)
      | _, _, _ => None
      end
  | _ => None
  end.
Definition read_unsigned (s : list N) : option Z :=
  match s with
  | [] => None
  | ch :: _ =>
      if is_digit ch then
        let '(ip, rest) := take_num s in
        match rest with
        | [] => Some (1000 * Z.of_N ip)
        | dot :: ds =>
            if (dot =? 46)%N then
              match read_frac ds with Some f => Some (1000 * Z.of_N ip + f) | None => None end
            else None
        end
      else None
  end.
Definition read_fx (s : list N) : option Z :=
  match s with
  | [] => None
  | ch :: t =>
      if (ch =? 45)%N then match read_unsigned t with Some x => Some (- x) | None => None end
      else read_unsigned s
  end.
