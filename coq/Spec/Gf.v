(* GF(2^8) modulo x^8+x^4+x^3+x^2+1 (0x11D), polynomials over it (big-endian coefficient lists), the RS generator
   polynomial, schoolbook remainder and syndromes. No tables. *)
From Coq Require Import NArith List Bool Arith.
Import ListNotations.
Local Open Scope N_scope.

Definition xtime (a : N) : N :=
  let a2 := N.shiftl a 1 in if N.testbit a2 8 then N.lxor a2 285 else a2.
Fixpoint gf_mul_fuel (n : nat) (a b acc : N) : N :=
  match n with
  | O => acc
  | S n' => gf_mul_fuel n' (xtime a) (N.div2 b) (if N.odd b then N.lxor acc a else acc)
  end.
Definition gf_mul (a b : N) : N := gf_mul_fuel 8 a b 0.

Fixpoint gf_pow2 (k : nat) : N := match k with O => 1 | S k' => xtime (gf_pow2 k') end.   (* alpha^k, alpha = 2 *)

(* big-endian polynomials *)
Fixpoint xorl (a b : list N) : list N :=
  match a, b with
  | x :: a', y :: b' => N.lxor x y :: xorl a' b'
  | _, _ => []
  end.
Definition zeros (n : nat) : list N := repeat 0 n.
Definition scale (c : N) (g : list N) : list N := map (gf_mul c) g.
Fixpoint pmul (q g : list N) : list N :=
  match q with
  | [] => zeros (length g - 1)
  | c :: q' => xorl (scale c g ++ zeros (length q')) (0 :: pmul q' g)
  end.

(* Horner evaluation *)
Definition poly_eval (p : list N) (x : N) : N := fold_left (fun acc c => N.lxor (gf_mul acc x) c) p 0.

(* g_k(x) = prod_{i<k} (x - alpha^i), monic, degree k; built by multiplying by (x + alpha^i) *)
Definition mul_linear (p : list N) (root : N) : list N :=
  xorl (p ++ [0]) (0 :: scale root p).
Fixpoint rs_generator_aux (k : nat) (i : nat) (p : list N) : list N :=
  match k with O => p | S k' => rs_generator_aux k' (S i) (mul_linear p (gf_pow2 i)) end.
Definition rs_generator (k : nat) : list N := rs_generator_aux k 0 [1].

(* remainder of p(x) * x^deg(g) ... schoolbook long division of [cur] by monic g = 1 :: gt, cancelling n leading positions *)
Fixpoint xor_prefix (rest p : list N) : list N :=
  match rest, p with
  | r :: rest', x :: p' => N.lxor r x :: xor_prefix rest' p'
  | _, _ => rest
  end.
Fixpoint poly_div_loop (gt : list N) (n : nat) (cur : list N) : list N :=
  match n with
  | O => cur
  | S n' => match cur with
            | [] => []
            | c :: rest => poly_div_loop gt n' (xor_prefix rest (scale c gt))
            end
  end.
(* remainder of data(x) * x^k modulo the monic g (|g| = k + 1) *)
Definition poly_rem (data g : list N) : list N :=
  poly_div_loop (tl g) (length data) (data ++ zeros (length g - 1)).

Definition syndromes (block : list N) (k : nat) : list N := map (fun i => poly_eval block (gf_pow2 i)) (seq 0 k).
