(* Spec-side oracles run on the IMPLEMENTATION's outputs (module-byte matrices: value = byte mod 2, type = byte / 2).
   They use only Spec definitions. *)
From Coq Require Import NArith List Bool Arith.
From FQ Require Import Lib.ListX Spec.IsoTable9 Spec.Iso Spec.Gf.
Import ListNotations.

Definition byte_val (b : N) : bool := N.odd b.
Definition byte_type (b : N) : N := N.div2 b.
Definition vals_of (m : list (list N)) : bmat := map (map byte_val) m.

(* public type codes: Data 0, Finder 1, Alignment 2, Timing 3, Format 4, Version 5, DarkModule 6, Empty 7 *)
Definition region_type (x : region) : N :=
  match x with
  | RData => 0 | RFinder _ => 1 | RAlign _ => 2 | RTiming _ => 3 | RFormat => 4 | RVersion => 5 | RDark => 6 | RSeparator => 7
  end%N.
Definition region_value (x : region) : option bool :=
  match x with
  | RFinder b | RTiming b | RAlign b => Some b
  | RSeparator => Some false
  | RDark => Some true
  | _ => None
  end.

Fixpoint all2 {A B} (f : A -> B -> bool) (a : list A) (b : list B) : bool :=
  match a, b with [], [] => true | x :: a', y :: b' => f x y && all2 f a' b' | _, _ => false end.

Definition version_of_size (n : nat) : option nat :=
  if (21 <=? n) && (n <=? 177) && ((n - 17) mod 4 =? 0) then Some ((n - 21) / 4) else None.

(* C03: fixed patterns have the ISO values; C15: every label is the ISO region *)
Definition oracle_fixed (m : list (list N)) : bool :=
  match version_of_size (length m) with
  | None => false
  | Some v => all2 (all2 (fun b x => match region_value x with Some e => Bool.eqb (byte_val b) e | None => true end)) m (iso_region_map v)
  end.
Definition oracle_labels (m : list (list N)) : bool :=
  match version_of_size (length m) with
  | None => false
  | Some v => all2 (all2 (fun b x => N.eqb (byte_type b) (region_type x))) m (iso_region_map v)
              && (length (filter (fun b => N.eqb (byte_type b) 0) (concat m)) =? 8 * iso_total_codewords v + iso_remainder_bits v)
  end.

(* C04: (level, mask) such that both format copies are its BCH word; version words for v >= 7 *)
Definition oracle_format (m : list (list N)) : option (nat * nat * bool) :=
  let bm := vals_of m in
  let n := length m in
  match version_of_size n with
  | None => None
  | Some v =>
    let w1 := read_word bm iso_format_pos1 15 in
    let w2 := read_word bm (iso_format_pos2 n) 15 in
    match iso_find_format w1 with
    | None => None
    | Some (l, k) =>
        let vok := if 6 <=? v then (read_word bm (iso_version_pos1 n) 18 =? iso_version_word v)%N
                                    && (read_word bm (iso_version_pos2 n) 18 =? iso_version_word v)%N
                   else true in
        Some (l, k, (w1 =? w2)%N && vok)
    end
  end.

(* C02: codeword count, zero remainder bits, Table 9 split, zero syndromes. Returns (blocks, ok) *)
Definition oracle_rs (m : list (list N)) : option (nat * bool) :=
  let bm := vals_of m in
  match version_of_size (length m), iso_find_format (read_word bm iso_format_pos1 15) with
  | Some v, Some (l, k) =>
      let bits := iso_unmasked_bits v k bm in
      let t := iso_total_codewords v in
      let cw := bits_bytes (firstn (8 * t) bits) in
      let rem := skipn (8 * t) bits in
      let blocks := iso_blocks_of v l cw in
      let '(d1, g1, d2, g2) := iso_layout v l in
      Some (length blocks,
            (length cw =? t) && forallb negb rem
            && (t =? iso_data_codewords v l + iso_ec v l * (g1 + g2))
            && forallb (fun b : list N * list N => forallb (N.eqb 0) (syndromes (fst b ++ snd b) (iso_ec v l))) blocks)
  | _, _ => None
  end.

(* C06: data codewords read from a symbol (after unmasking and de-interleaving) *)
Definition oracle_data_codewords (m : list (list N)) : option (list N) :=
  let bm := vals_of m in
  match version_of_size (length m), iso_find_format (read_word bm iso_format_pos1 15) with
  | Some v, Some (l, k) =>
      let bits := iso_unmasked_bits v k bm in
      Some (iso_deinterleave_data v l (bits_bytes (firstn (8 * iso_total_codewords v) bits)))
  | _, _ => None
  end.

(* C08: after = before with exactly the Data-typed cells satisfying the Table 10 condition toggled *)
Definition oracle_mask (k : nat) (before after : list (list N)) : bool :=
  let n := length before in
  all2 (fun (ra : nat * list N) (rb : list N) =>
          all2 (fun (ca : nat * N) (cb : N) =>
                  N.eqb cb (if N.eqb (byte_type (snd ca)) 0 && iso_cond k (fst ra) (fst ca) then N.lxor (snd ca) 1 else snd ca))
               (combine (seq 0 n) (snd ra)) rb)
       (combine (seq 0 n) before) after.

(* C09 *)
Definition oracle_mode (input : list N) : nat :=
  if forallb iso_is_digit input then 0 else if forallb iso_is_alnum input then 1 else 2.

(* C07: remainder of data * x^k by the degree-k RS generator *)
Definition oracle_ec (data : list N) (k : nat) : list N := poly_rem data (rs_generator k).

(* C02 on the output of structure() directly: every block of the codeword sequence has zero syndromes and the
   de-interleaved data codewords are the first D bytes of the data handed in *)
Definition oracle_rs_stream (v l : nat) (cw data : list N) : bool :=
  forallb (fun b : list N * list N => forallb (N.eqb 0) (syndromes (fst b ++ snd b) (iso_ec v l))) (iso_blocks_of v l cw)
  && list_eqb N.eqb (iso_deinterleave_data v l cw) (firstn (iso_data_codewords v l) data).

(* C08 by ISO region (not by the implementation's own labels): after = before with exactly the encoding-region cells
   satisfying the Table 10 condition toggled, for a matrix of a real symbol size *)
Definition oracle_mask_iso (k : nat) (before after : list (list N)) : bool :=
  match version_of_size (length before) with
  | None => false
  | Some v =>
      let n := length before in
      all2 (fun (ra : nat * (list N * list region)) (rb : list N) =>
              all2 (fun (ca : nat * (N * region)) (cb : N) =>
                      N.eqb cb (if is_rdata (snd (snd ca)) && iso_cond k (fst ra) (fst ca) then N.lxor (fst (snd ca)) 1 else fst (snd ca)))
                   (combine (seq 0 n) (combine (fst (snd ra)) (snd (snd ra)))) rb)
           (combine (seq 0 n) (combine before (iso_region_map v))) after
  end.
