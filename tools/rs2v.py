#!/usr/bin/env python3
"""rs2v: translate the tables, constants and string templates of /repo's Rust
sources into Coq (coq/Generated/Tables.v, Strings.v, Purity.v) and into JSON
(work/tables_parsed.json) for the cross-check against the extensional dump.

Items are located by name and brace matching, never by line number. The
translator evaluates constant expressions itself. Output files are rewritten
only when their content changes.
"""
import json
import os
import re
import sys

REPO = os.environ.get("FQ_REPO", "/repo")
VERIF = os.path.dirname(os.path.dirname(os.path.abspath(__file__)))
OUT = os.path.join(VERIF, "coq", "Generated")
WORK = os.path.join(VERIF, "work")

LEVELS = ["L", "M", "Q", "H"]
MODES = ["Numeric", "Alphanumeric", "Byte"]


class ParseError(Exception):
    pass


def src(rel):
    with open(os.path.join(REPO, "src", rel), encoding="utf-8") as f:
        return f.read()


def strip_comments(s):
    """Remove // and /* */ comments, keeping string and char literals intact."""
    out = []
    i, n = 0, len(s)
    while i < n:
        c = s[i]
        if s.startswith("//", i):
            j = s.find("\n", i)
            i = n if j < 0 else j
        elif s.startswith("/*", i):
            j = s.find("*/", i + 2)
            i = n if j < 0 else j + 2
        elif c == '"':
            j = i + 1
            while j < n and s[j] != '"':
                j += 2 if s[j] == "\\" else 1
            out.append(s[i:j + 1])
            i = j + 1
        elif c == "r" and re.match(r'r#*"', s[i:]):
            m = re.match(r'r(#*)"', s[i:])
            close = '"' + m.group(1)
            j = s.find(close, i + len(m.group(0)))
            out.append(s[i:j + len(close)])
            i = j + len(close)
        elif c == "'" and re.match(r"'(\\.|[^\\'])'", s[i:]):
            m = re.match(r"'(\\.|[^\\'])'", s[i:])
            out.append(m.group(0))
            i += len(m.group(0))
        elif c == "b" and re.match(r"b'(\\.|[^\\'])'", s[i:]):
            m = re.match(r"b'(\\.|[^\\'])'", s[i:])
            out.append(m.group(0))
            i += len(m.group(0))
        else:
            out.append(c)
            i += 1
    return "".join(out)


def match_close(s, i, op, cl):
    """s[i] == op; return index of the matching close (string-literal aware enough for our sources)."""
    assert s[i] == op, (s[i:i + 20], op)
    depth = 0
    j = i
    n = len(s)
    while j < n:
        c = s[j]
        if c == '"':
            j += 1
            while j < n and s[j] != '"':
                j += 2 if s[j] == "\\" else 1
        elif c == "'" and re.match(r"'(\\.|[^\\'])'", s[j:]):
            j += len(re.match(r"'(\\.|[^\\'])'", s[j:]).group(0)) - 1
        elif c == op:
            depth += 1
        elif c == cl:
            depth -= 1
            if depth == 0:
                return j
        j += 1
    raise ParseError("unbalanced " + op)


def fn_body(text, name, params=None):
    """body of `fn name`; `params` (a regex) selects among several functions of that name by their parameter list"""
    pat = r"\bfn\s+" + re.escape(name) + r"\s*(<[^>]*>)?\s*\(" + (params if params else "")
    m = re.search(pat, text)
    if not m:
        raise ParseError("fn %s not found" % name)
    i = text.index("(", m.start())
    j = match_close(text, i, "(", ")")
    k = text.index("{", j)
    e = match_close(text, k, "{", "}")
    return text[k + 1:e]


def const_array(text, name, which=0):
    """`const NAME: [T; N] = [ ... ];` -> text inside the outer brackets."""
    ms = list(re.finditer(r"\bconst\s+" + re.escape(name) + r"\s*:\s*\[[^=]*=\s*\[", text))
    if len(ms) <= which:
        raise ParseError("const %s not found" % name)
    m = ms[which]
    i = m.end() - 1
    j = match_close(text, i, "[", "]")
    return text[i + 1:j]


def split_top(s, sep=","):
    parts, depth, cur = [], 0, []
    for c in s:
        if c in "([{":
            depth += 1
        elif c in ")]}":
            depth -= 1
        if c == sep and depth == 0:
            parts.append("".join(cur))
            cur = []
        else:
            cur.append(c)
    if "".join(cur).strip():
        parts.append("".join(cur))
    return [p.strip() for p in parts if p.strip()]


def ev(expr):
    """Evaluate a Rust integer constant expression."""
    e = expr.strip()
    e = re.sub(r"(?<=[0-9a-fA-F])_(?=[0-9a-fA-F])", "", e)
    e = re.sub(r"\b(\d+)(usize|u8|u16|u32|u64|i32|f64)\b", r"\1", e)
    e = re.sub(r"\b(\d+)f64\b", r"\1", e)
    if not re.fullmatch(r"[0-9a-fA-Fxob\s()|&<>+*/%^-]+", e):
        raise ParseError("cannot evaluate %r" % expr)
    v = eval(e.replace("/", "//"), {"__builtins__": {}}, {})
    if not isinstance(v, int):
        raise ParseError("non-integer %r" % expr)
    return v


def int_list(s):
    return [ev(p) for p in split_top(s)]


def vnum(tok):
    m = re.fullmatch(r"V(\d\d)", tok.strip())
    if not m:
        raise ParseError("bad version token %r" % tok)
    return int(m.group(1)) - 1


# ----------------------------------------------------------------------------------
def parse_version(T):
    t = strip_comments(src("version.rs"))
    body = fn_body(t, "get")
    arms = {}
    mode_pos = [(m.start(), m.group(1)) for m in re.finditer(r"Mode::(\w+)\s*=>\s*match\s+ecl\s*\{", body)]
    if [m for _, m in mode_pos] != MODES:
        raise ParseError("Version::get: unexpected mode arms %r" % mode_pos)
    for (p, mode) in mode_pos:
        i = body.index("{", p)
        j = match_close(body, i, "{", "}")
        mb = body[i + 1:j]
        lv = [(m.start(), m.group(1)) for m in re.finditer(r"ECL::(\w)\s*=>\s*match\s+len\s*\{", mb)]
        if [l for _, l in lv] != LEVELS:
            raise ParseError("Version::get: unexpected level arms")
        for (q, lev) in lv:
            a = mb.index("{", q)
            b = match_close(mb, a, "{", "}")
            lb = mb[a + 1:b]
            al = []
            items = split_top(lb)
            for it in items[:-1]:
                m = re.fullmatch(r"(\d[\d_]*)\s*\.\.=\s*(\d[\d_]*)\s*=>\s*Some\(\s*(V\d\d)\s*\)", it)
                if not m:
                    raise ParseError("Version::get: bad arm %r" % it)
                al.append([ev(m.group(1)), ev(m.group(2)), vnum(m.group(3))])
            if not re.fullmatch(r"_\s*=>\s*None", items[-1]):
                raise ParseError("Version::get: last arm is not `_ => None`: %r" % items[-1])
            arms[(mode, lev)] = al
    T["version_get_arms"] = [arms[(m, l)] for m in MODES for l in LEVELS]

    T["max_bytes"] = int_list(const_array(t, "MAX_BYTES"))
    T["version_information"] = int_list(const_array(t, "VERSION_INFORMATION"))
    grid = const_array(t, "ALIGNMENT_PATTERNS_GRID")
    rows = split_top(grid)
    al = []
    for r in rows:
        m = re.fullmatch(r"&\[(.*)\]", r, re.S)
        if not m:
            raise ParseError("alignment row %r" % r)
        al.append(int_list(m.group(1)))
    T["alignment"] = al

    mb = fn_body(t, "missing_bits")
    i = mb.index("{", mb.index("match self"))
    j = match_close(mb, i, "{", "}")
    miss = [None] * 40
    for it in split_top(mb[i + 1:j]):
        m = re.fullmatch(r"(.*)=>\s*(\d+)", it, re.S)
        if not m:
            raise ParseError("missing_bits arm %r" % it)
        for tok in m.group(1).split("|"):
            v = vnum(tok)
            if miss[v] is None:
                miss[v] = int(m.group(2))
    if None in miss:
        raise ParseError("missing_bits: not all versions covered")
    T["missing_bits"] = miss

    sb = fn_body(t, "size")
    m = re.fullmatch(r"\s*self\s+as\s+usize\s*\*\s*(\d+)\s*\+\s*(\d+)\s*", sb)
    if not m:
        raise ParseError("Version::size body %r" % sb)
    T["size_mul"], T["size_add"] = int(m.group(1)), int(m.group(2))

    fb = fn_body(t, "from_n")
    i = fb.index("{", fb.index("match n"))
    j = match_close(fb, i, "{", "}")
    fr = []
    for it in split_top(fb[i + 1:j]):
        m = re.fullmatch(r"(\d+)\s*=>\s*(V\d\d)", it)
        if m:
            fr.append([int(m.group(1)), vnum(m.group(2))])
        elif not it.startswith("_"):
            raise ParseError("from_n arm %r" % it)
    T["from_n"] = fr

    # enum discriminants
    eb = t[t.index("pub enum Version"):]
    i = eb.index("{")
    j = match_close(eb, i, "{", "}")
    disc = re.findall(r"(V\d\d)\s*=\s*(\d+)", eb[i:j])
    T["version_discriminants"] = [[vnum(a), int(b)] for a, b in disc]


def level_tables(text, fname, names=LEVELS):
    body = fn_body(text, fname)
    return body, [int_list(const_array(body, n)) for n in names]


def parse_hardcode(T):
    t = strip_comments(src("hardcode.rs"))
    body, tabs = level_tables(t, "ecc_to_groups")
    # unpacking shifts
    sh = re.findall(r"\(?ecgroups(?:\s*>>\s*(\d+))?\)?\s*&\s*0x([0-9A-Fa-f]+)", body)
    if len(sh) != 4:
        raise ParseError("ecc_to_groups: unpacking not recognised")
    shifts = [(int(a) if a else 0, int(b, 16)) for a, b in sh]
    # which table each level selects
    sel = re.findall(r"ECL::(\w)\s*=>\s*(\w)\[version\]", body)
    if [a for a, _ in sel] != LEVELS:
        raise ParseError("ecc_to_groups: level selection")
    tabmap = dict(zip(LEVELS, tabs))
    out = []
    for lev, tn in sel:
        out.append([[(w >> s) & m for (s, m) in shifts] for w in tabmap[tn]])
    # order of tuple returned: [(g1_count, g1_size), (g2_count, g2_size)] from the four unpacked fields in order
    if not re.search(r"\(\s*g1_count\s*,\s*g1_size\s*,\s*g2_count\s*,\s*g2_size\s*\)\s*=", body):
        raise ParseError("ecc_to_groups: field order")
    if not re.search(r"\(g1_count as usize,\s*g1_size as usize\),\s*\(g2_count as usize,\s*g2_size as usize\)", body):
        raise ParseError("ecc_to_groups: return order")
    T["ecc_groups"] = out

    body, tabs = level_tables(t, "ecm_to_format_information")
    sel = re.findall(r"ECL::(\w)\s*=>\s*(\w)\[mask as usize\]", body)
    if [a for a, _ in sel] != LEVELS:
        raise ParseError("ecm_to_format_information: level selection")
    tabmap = dict(zip(LEVELS, tabs))
    T["format_info"] = [tabmap[tn] for _, tn in sel]

    body, tabs = level_tables(t, "data_codewords")
    sel = re.findall(r"ECL::(\w)\s*=>\s*(\w)\[version as usize\]", body)
    if [a for a, _ in sel] != LEVELS:
        raise ParseError("data_codewords: level selection")
    tabmap = dict(zip(LEVELS, tabs))
    T["data_codewords"] = [tabmap[tn] for _, tn in sel]

    db = fn_body(t, "data_bits")
    m = re.fullmatch(r"\s*data_codewords\(version,\s*ecl\)\s*\*\s*(\d+)\s*", db)
    if not m:
        raise ParseError("data_bits body")
    T["data_bits_mul"] = int(m.group(1))

    cb = fn_body(t, "cci_bits")
    cci = []
    pos = [(m.start(), m.group(1)) for m in re.finditer(r"Mode::(\w+)\s*=>\s*match\s+version\s*\{", cb)]
    if [m for _, m in pos] != MODES:
        raise ParseError("cci_bits: mode arms")
    for p, mode in pos:
        i = cb.index("{", p)
        j = match_close(cb, i, "{", "}")
        th = []
        default = None
        for it in split_top(cb[i + 1:j]):
            m = re.fullmatch(r"v\s+if\s+\(v as usize\)\s*>=\s*\((V\d\d) as usize\)\s*=>\s*(\d+)", it)
            if m:
                th.append([vnum(m.group(1)), int(m.group(2))])
                continue
            m = re.fullmatch(r"_\s*=>\s*(\d+)", it)
            if m:
                default = int(m.group(1))
                continue
            raise ParseError("cci_bits arm %r" % it)
        if default is None:
            raise ParseError("cci_bits: no default arm")
        cci.append([th, default])
    T["cci"] = cci

    pb = fn_body(t, "get_polynomial")
    i = pb.index("{", pb.index("match (version, ecl)"))
    j = match_close(pb, i, "{", "}")
    mbody = pb[i + 1:j]
    arms = []
    k = 0
    while True:
        a = mbody.find("=>", k)
        if a < 0:
            break
        pat = mbody[k:a]
        b = mbody.index("&[", a)
        e = match_close(mbody, b + 1, "[", "]")
        coeffs = int_list(mbody[b + 2:e])
        pairs = []
        for g in re.finditer(r"\(\s*([V\d\s|]+?),\s*([LMQH])\s*,?\s*\)", pat):
            for tok in g.group(1).split("|"):
                pairs.append([vnum(tok), LEVELS.index(g.group(2))])
        if not pairs:
            raise ParseError("get_polynomial: empty pattern %r" % pat)
        arms.append([pairs, coeffs])
        k = e + 1
        while k < len(mbody) and mbody[k] in ", \n\t":
            k += 1
    T["polynomial_arms"] = arms
    T["percent_score"] = int_list(const_array(t, "PERCENT_SCORE"))


def parse_poly(T):
    t = strip_comments(src("polynomials.rs"))
    T["log"] = int_list(const_array(t, "LOG"))
    T["antilog"] = int_list(const_array(t, "ANTILOG"))
    st = fn_body(t, "structure")
    for nm in ["MAX_ERROR", "MAX_GROUP_COUNT", "MAX_DATABITS"]:
        m = re.search(r"const\s+" + nm + r"\s*:\s*usize\s*=\s*([^;]+);", st)
        if not m:
            raise ParseError(nm)
        T[nm.lower()] = ev(m.group(1))
    m = re.search(r"interleaved_data\s*=\s*\[0;\s*([^\]]+)\]", st)
    if not m:
        raise ParseError("interleaved buffer size")
    e = m.group(1)
    for nm in ["MAX_ERROR", "MAX_GROUP_COUNT", "MAX_DATABITS"]:
        e = e.replace(nm, str(T[nm.lower()]))
    T["interleave_buf"] = ev(e)
    dv = fn_body(t, "division")
    m = re.search(r"from_mut\s*=\s*\[0;\s*(\d+)\]", dv)
    if not m:
        raise ParseError("division buffer")
    T["division_buf"] = int(m.group(1))
    m = re.search(r"let start\s*=\s*(\d+)\s*-\s*from\.len\(\)\s*-\s*by\.len\(\)", dv)
    if not m:
        raise ParseError("division start")
    T["division_top"] = int(m.group(1))
    m = re.search(r"LOG\[tmp\s*%\s*(\d+)\]", dv)
    if not m:
        raise ParseError("division modulus")
    T["division_mod"] = int(m.group(1))


def parse_encode(T):
    t = strip_comments(src("encode.rs"))
    ind = []
    for fn in ["encode_numeric", "encode_alphanumeric", "encode_byte"]:
        b = fn_body(t, fn)
        m = re.search(r"compact\.push_bits\((0b[01_]+|\d+),\s*(\d+)\)", b)
        if not m:
            raise ParseError(fn + ": mode indicator")
        ind.append([ev(m.group(1)), int(m.group(2))])
    T["mode_indicators"] = ind
    nb = fn_body(t, "encode_numeric")
    w = {}
    for nm in ["Single", "Double", "Triple"]:
        m = re.search(r"NumericEncoding::" + nm + r"\s*=>\s*compact\.push_bits\(number,\s*(\d+)\)", nb)
        if not m:
            raise ParseError("numeric width " + nm)
        w[nm] = int(m.group(1))
    T["numeric_widths"] = [w["Single"], w["Double"], w["Triple"]]
    m = re.search(r"ascii_to_digit\(input\[i\]\)\s*\*\s*(\d+)\s*\+\s*ascii_to_digit\(input\[i \+ 1\]\)\s*\*\s*(\d+)", nb)
    if not m:
        raise ParseError("numeric weights")
    T["numeric_weights"] = [int(m.group(1)), int(m.group(2))]
    ab = fn_body(t, "encode_alphanumeric")
    m = re.search(r"push_bits\(a\s*\*\s*(\d+)\s*\+\s*b,\s*(\d+)\)", ab)
    m2 = re.search(r"push_bits\(ascii_to_alphanumeric\(\*input\.last\(\)\.unwrap\(\)\),\s*(\d+)\)", ab)
    if not m or not m2:
        raise ParseError("alphanumeric widths")
    T["alnum_mul"] = int(m.group(1))
    T["alnum_widths"] = [int(m.group(2)), int(m2.group(1))]
    tb = fn_body(t, "add_terminator")
    m = re.search(r"min\(len,\s*(\d+)\)", tb)
    if not m:
        raise ParseError("terminator")
    T["terminator_max"] = int(m.group(1))

    def byte_lit(s):
        m = re.fullmatch(r"b'(\\?.)'", s.strip())
        if not m:
            raise ParseError("byte literal %r" % s)
        c = m.group(1)
        return ord(c[-1]) if len(c) == 1 or c[0] != "\\" else {"n": 10, "t": 9, "\\": 92, "'": 39}[c[1]]

    xb = fn_body(t, "ascii_to_alphanumeric")
    i = xb.index("{", xb.index("match c"))
    j = match_close(xb, i, "{", "}")
    arms = []
    for it in split_top(xb[i + 1:j]):
        m = re.fullmatch(r"(b'.+?')\s*\.\.=\s*(b'.+?')\s*=>\s*\(c\s*-\s*(b'.+?')\)\s*as usize(?:\s*\+\s*(\d+))?", it)
        if m:
            lo, hi, sub = byte_lit(m.group(1)), byte_lit(m.group(2)), byte_lit(m.group(3))
            arms.append([lo, hi, sub, int(m.group(4) or 0)])
            continue
        m = re.fullmatch(r"(b'.+?')\s*=>\s*(\d+)", it)
        if m:
            c = byte_lit(m.group(1))
            arms.append([c, c, c, int(m.group(2))])
            continue
        if it.startswith("_"):
            continue
        raise ParseError("ascii_to_alphanumeric arm %r" % it)
    T["alnum_arms"] = arms  # c in lo..=hi -> c - sub + add
    qb = fn_body(t, "is_qr_alphanumeric")
    m = re.search(r"matches!\(c,(.*)\)", qb, re.S)
    if not m:
        raise ParseError("is_qr_alphanumeric")
    rng = []
    for it in m.group(1).split("|"):
        it = it.strip()
        mm = re.fullmatch(r"(b'.+?')\s*\.\.=\s*(b'.+?')", it)
        if mm:
            rng.append([byte_lit(mm.group(1)), byte_lit(mm.group(2))])
        else:
            rng.append([byte_lit(it), byte_lit(it)])
    T["is_alnum_ranges"] = rng
    db = fn_body(t, "ascii_to_digit")
    if "c.is_ascii_digit()" not in db or "(c - b'0') as usize" not in db:
        raise ParseError("ascii_to_digit")


def parse_compact(T):
    raw = src("compact.rs")
    t = strip_comments(raw)
    # choose the non-wasm KEEP_LAST
    ms = list(re.finditer(r'#\[cfg\((not\()?target_arch = "wasm32"\)?\)\]\s*pub const KEEP_LAST', t))
    if len(ms) != 2:
        raise ParseError("KEEP_LAST variants")
    idx = [i for i, m in enumerate(ms) if m.group(1)]
    T["keep_last"] = int_list(const_array(t, "KEEP_LAST", idx[0]))
    T["keep_last_wasm32"] = int_list(const_array(t, "KEEP_LAST", 1 - idx[0]))
    T["pad_bytes"] = int_list(const_array(t, "PAD_BYTES"))
    fv = fn_body(t, "from_version")
    m = re.search(r"vec!\[0;\s*len\s*\*\s*(\d+)\]", fv)
    if not m:
        raise ParseError("from_version")
    T["compact_alloc_mul"] = int(m.group(1))


def parse_masking(T):
    t = strip_comments(src("datamasking.rs"))
    eb = t[t.index("pub enum Mask"):]
    i = eb.index("{")
    j = match_close(eb, i, "{", "}")
    T["mask_discriminants"] = [[a, int(b)] for a, b in re.findall(r"(\w+)\s*=\s*(\d+)", eb[i:j])]

    def offs(fn):
        b = fn_body(t, fn)
        arr = const_array(b, "OFFSETS")
        return [[ev(x) for x in split_top(p.strip()[1:-1])] for p in split_top(arr)]

    T["mask5_offsets"] = offs("mask_field")
    T["mask6_offsets"] = offs("mask_diamond")
    pl = strip_comments(src("placement.rs"))
    arr = const_array(pl, "MASKS")
    names = [x.replace("Mask::", "").strip() for x in split_top(arr)]
    d = dict(T["mask_discriminants"])
    T["masks_order"] = [d[n] for n in names]
    dm = fn_body(t, "mask")
    order = re.findall(r"Mask::(\w+)\s*=>\s*(\w+)\(qr\)", dm)
    T["mask_dispatch"] = [[d[a], b] for a, b in order]


def parse_misc(T):
    q = strip_comments(src("qr.rs"))
    m = re.search(r"const QR_MAX_WIDTH:\s*usize\s*=\s*(\d+);", q)
    T["qr_max_width"] = int(m.group(1))
    m = re.search(r"ecl\.unwrap_or\(ECL::(\w)\)", q)
    if not m:
        raise ParseError("default ECL")
    T["default_ecl"] = LEVELS.index(m.group(1))
    d = strip_comments(src("default.rs"))
    m = re.search(r"const POSITION_SIZE:\s*usize\s*=\s*(\d+);", d)
    T["position_size"] = int(m.group(1))
    mo = strip_comments(src("module.rs"))
    eb = mo[mo.index("pub enum ModuleType"):]
    i = eb.index("{")
    j = match_close(eb, i, "{", "}")
    T["module_types"] = [[a, ev(b)] for a, b in re.findall(r"(\w+)\s*=\s*(\d+\s*<<\s*\d+)", eb[i:j])]
    e = strip_comments(src("ecl.rs"))
    eb = e[e.index("pub enum ECL"):]
    i = eb.index("{")
    j = match_close(eb, i, "{", "}")
    T["ecl_order"] = re.findall(r"\b([LMQH])\s*,", eb[i:j + 1])
    en = strip_comments(src("encode.rs"))
    eb = en[en.index("pub enum Mode"):]
    i = eb.index("{")
    j = match_close(eb, i, "{", "}")
    T["mode_order"] = re.findall(r"\b(Numeric|Alphanumeric|Byte)\s*,", eb[i:j + 1])
    s = strip_comments(src("convert/svg.rs"))
    ip = fn_body(s, "image_placement")
    T["svg_square"] = int_list(const_array(ip, "SQUARE"))
    for nm in ["ROUNDED_SQUARE", "CIRCLE"]:
        if not re.search(r"const " + nm + r":\s*\[f64; 40\]\s*=\s*SQUARE;", ip):
            raise ParseError(nm + " is not SQUARE")
    m = re.search(r"Square \| RoundedSquare\s*=>\s*(\d+)f64,\s*Circle\s*=>\s*(\d+)f64", ip)
    if not m:
        raise ParseError("image gap constants")
    T["svg_gap"] = [int(m.group(1)), int(m.group(2))]
    m = re.search(r"gap \* \(version \+ (\d+)\) as f64 / (\d+)f64", ip)
    if not m:
        raise ParseError("image gap scaling")
    T["svg_gap_scale"] = [int(m.group(1)), int(m.group(2))]
    m = re.search(r"margin:\s*(\d+),", fn_body(s, "default"))
    T["svg_default_margin"] = int(m.group(1))
    h = strip_comments(src("helpers.rs"))
    chars = {}
    for nm in ["EMPTY", "BLOCK", "TOP", "BOTTOM"]:
        m = re.search(r"const " + nm + r":\s*char\s*=\s*'(.)';", h)
        if not m:
            raise ParseError("helpers char " + nm)
        chars[nm] = ord(m.group(1))
    T["term_chars"] = [chars["EMPTY"], chars["BLOCK"], chars["TOP"], chars["BOTTOM"]]


# ---------------------------------------------------------------------------- strings
def rust_str_literals(body):
    """All string literals in a function body, in order, decoded."""
    out = []
    for m in re.finditer(r'r(#*)"(.*?)"\1|"((?:\\.|[^"\\])*)"', body, re.S):
        if m.group(2) is not None:
            out.append(m.group(2))
        else:
            s = m.group(3)
            s = s.replace('\\"', '"').replace("\\n", "\n").replace("\\t", "\t").replace("\\r", "\r").replace("\\'", "'").replace("\\\\", "\\")
            out.append(s)
    return out


def parse_strings(S):
    m = strip_comments(src("convert/mod.rs"))
    shapes = {}
    for fn in ["square", "circle", "rounded_square", "horizontal", "vertical", "diamond"]:
        b = fn_body(m, fn)
        lits = rust_str_literals(b)
        if len(lits) != 1:
            raise ParseError("shape %s literal" % fn)
        mm = re.search(r'format!\(\s*(?:r#*)?".*?"#*\s*(?:,\s*(.*))?\)', b, re.S)
        extra = (mm.group(1) or "").strip() if mm else ""
        shapes[fn] = [lits[0], extra]
    S["shapes"] = shapes
    fb = re.search(r"const FUNCTIONS:\s*\[ModuleFunction; 6\]\s*=\s*\[(.*?)\];", m, re.S)
    S["shape_functions"] = [x.replace("Shape::", "").strip() for x in split_top(fb.group(1))]
    ub = m[m.index("impl From<Shape> for usize"):]
    S["shape_index"] = [[a, int(b)] for a, b in re.findall(r"Shape::(\w+)(?:\(_\))?\s*=>\s*(\d+)", ub[:ub.index("impl From<String>")])]
    hb = fn_body(m, "rgba2hex")
    S["rgba2hex"] = rust_str_literals(hb)
    if not re.search(r"color\[3\]\s*!=\s*255", hb):
        raise ParseError("rgba2hex alpha guard")
    s = strip_comments(src("convert/svg.rs"))
    S["to_str"] = rust_str_literals(fn_body(s, "to_str"))
    S["path"] = rust_str_literals(fn_body(s, "path"))
    ib = fn_body(s, "image", r"\s*&self\s*,\s*n\s*:")
    S["image"] = rust_str_literals(ib)
    rects = {}
    for shp in ["Square", "Circle", "RoundedSquare"]:
        mm = re.search(r"ImageBackgroundShape::" + shp + r"\s*=>\s*\{\s*r(#*)\"(.*?)\"\1\s*\}", ib, re.S)
        if not mm:
            raise ParseError("image(): rect template for " + shp)
        rects[shp] = mm.group(2)
    S["image_rects"] = rects
    el = [x for x in S["image"] if x.startswith("<image")]
    if len(el) != 1:
        raise ParseError("image(): <image> template")
    S["image_elem"] = el[0]
    reps = re.findall(r"\.replace\(\"(\{\d\})\"", ib)
    S["image_rect_holes"] = reps
    S["escape"] = rust_str_literals(fn_body(s, "escape_attribute")) if "fn escape_attribute" in s else []
    eb = fn_body(s, "escape_attribute") if "fn escape_attribute" in s else ""
    S["escape_arms"] = [[a, b] for a, b in re.findall(r"'(\\?.)'\s*=>\s*out\.push_str\(\"([^\"]*)\"\)", eb)]


# ---------------------------------------------------------------------------- purity
PURITY_PATTERNS = [
    (r"\bstatic\s+mut\b", "static mut"),
    (r"^\s*(pub(\([^)]*\))?\s+)?static\s+\w+", "static item"),
    (r"\bthread_local!", "thread_local!"),
    (r"\blazy_static!", "lazy_static!"),
    (r"\b(OnceCell|OnceLock|LazyLock|LazyCell|Lazy)\b", "lazy cell"),
    (r"\b(Cell|RefCell|UnsafeCell|Mutex|RwLock|Atomic\w+)\b", "interior mutability"),
    (r"\bunsafe\b(?!_code)", "unsafe"),
    (r"\b(std::env|env::var|SystemTime|Instant::now|rand::|thread_rng)\b", "ambient input"),
]


def purity_scan():
    findings = []
    root = os.path.join(REPO, "src")
    for dp, dn, fn in os.walk(root):
        if os.path.basename(dp) == "tests":
            continue
        for f in sorted(fn):
            if not f.endswith(".rs") or f == "verif_hooks.rs":
                continue
            rel = os.path.relpath(os.path.join(dp, f), root)
            text = strip_comments(open(os.path.join(dp, f), encoding="utf-8").read())
            # drop string literals so templates cannot trigger
            text = re.sub(r'r(#*)".*?"\1|"(?:\\.|[^"\\])*"', '""', text, flags=re.S)
            # drop cfg(test) modules
            for ln, line in enumerate(text.split("\n"), 1):
                for pat, what in PURITY_PATTERNS:
                    if re.search(pat, line):
                        if "deny(unsafe_code)" in line:
                            continue
                        findings.append([rel, what, line.strip()[:80]])
    return findings


# ---------------------------------------------------------------------------- emit
def coq_N(n):
    return str(n)


def coq_list(xs, f=coq_N):
    return "[" + "; ".join(f(x) for x in xs) + "]"


def coq_tuple(xs):
    return "(" + ", ".join(coq_N(x) for x in xs) + ")"


def coq_bytes(s):
    return coq_list(list(s.encode("utf-8")))


def write_if_changed(path, content):
    os.makedirs(os.path.dirname(path), exist_ok=True)
    if os.path.exists(path) and open(path, encoding="utf-8").read() == content:
        return False
    with open(path, "w", encoding="utf-8") as f:
        f.write(content)
    return True


def emit_tables(T):
    L = []
    A = L.append
    A("(* GENERATED by tools/rs2v.py from /repo/src on every run -- do not edit. *)")
    A("From Coq Require Import NArith List.")
    A("Import ListNotations.")
    A("Local Open Scope N_scope.")
    A("")
    A("(* Version::get: 12 arm lists in order (mode, level) = (Numeric,L) (Numeric,M) ... (Byte,H); arm = (lo, hi, version index) *)")
    A("Definition version_get_arms : list (list (N * N * N)) :=")
    A("  [" + ";\n   ".join(coq_list(a, coq_tuple) for a in T["version_get_arms"]) + "].")
    for k in ["max_bytes", "version_information", "missing_bits", "percent_score", "log", "antilog",
              "keep_last", "pad_bytes", "svg_square", "masks_order", "numeric_widths", "numeric_weights",
              "alnum_widths", "svg_gap", "svg_gap_scale", "term_chars"]:
        A("Definition %s_tbl : list N := %s." % (k, coq_list(T[k])))
    A("Definition alignment_tbl : list (list N) := %s." % coq_list(T["alignment"], coq_list))
    A("Definition ecc_groups_tbl : list (list (N * N * N * N)) :=\n  [" +
      ";\n   ".join(coq_list(r, coq_tuple) for r in T["ecc_groups"]) + "].")
    A("Definition format_info_tbl : list (list N) := %s." % coq_list(T["format_info"], coq_list))
    A("Definition data_codewords_tbl : list (list N) :=\n  [" + ";\n   ".join(coq_list(r) for r in T["data_codewords"]) + "].")
    A("(* cci_bits: per mode, (guards `version >= threshold => bits` in source order, default) *)")
    A("Definition cci_tbl : list (list (N * N) * N) := %s." %
      coq_list(T["cci"], lambda e: "(" + coq_list(e[0], coq_tuple) + ", " + coq_N(e[1]) + ")"))
    A("(* get_polynomial: match arms in source order; (pattern = list of (version, level)), alpha exponents *)")
    A("Definition polynomial_arms : list (list (N * N) * list N) :=\n  [" +
      ";\n   ".join("(" + coq_list(a[0], coq_tuple) + ",\n    " + coq_list(a[1]) + ")" for a in T["polynomial_arms"]) + "].")
    A("Definition mode_indicators_tbl : list (N * N) := %s." % coq_list(T["mode_indicators"], coq_tuple))
    A("(* ascii_to_alphanumeric arms: c in lo..=hi => c - sub + add *)")
    A("Definition alnum_arms : list (N * N * N * N) := %s." % coq_list(T["alnum_arms"], coq_tuple))
    A("Definition is_alnum_ranges : list (N * N) := %s." % coq_list(T["is_alnum_ranges"], coq_tuple))
    A("Definition mask5_offsets : list (N * N) := %s." % coq_list(T["mask5_offsets"], coq_tuple))
    A("Definition mask6_offsets : list (N * N) := %s." % coq_list(T["mask6_offsets"], coq_tuple))
    A("Definition from_n_arms : list (N * N) := %s." % coq_list(T["from_n"], coq_tuple))
    for k in ["size_mul", "size_add", "data_bits_mul", "alnum_mul", "terminator_max", "compact_alloc_mul",
              "qr_max_width", "default_ecl", "position_size", "interleave_buf", "division_buf", "division_top",
              "division_mod", "svg_default_margin"]:
        A("Definition %s : N := %s." % (k, coq_N(T[k])))
    A("Definition module_type_codes : list N := %s." % coq_list([c for _, c in T["module_types"]]))
    A("")
    return "\n".join(L)


def emit_strings(S):
    L = []
    A = L.append
    A("(* GENERATED by tools/rs2v.py from /repo/src on every run -- do not edit. *)")
    A("(* String literals used to build output, as UTF-8 byte lists (format holes kept verbatim). *)")
    A("From Coq Require Import NArith List.")
    A("Import ListNotations.")
    A("Local Open Scope N_scope.")
    for fn in ["square", "circle", "rounded_square", "vertical", "horizontal", "diamond"]:
        A("Definition shape_%s_tpl : list N := %s. (* %s *)" % (fn, coq_bytes(S["shapes"][fn][0]), S["shapes"][fn][0].replace("*)", "* )")))
    A("Definition shape_functions_order : list (list N) := %s." % coq_list(S["shape_functions"], coq_bytes))
    for key in ["rgba2hex", "to_str", "path", "image", "escape"]:
        A("Definition %s_lits : list (list N) := %s." % (key, coq_list(S[key], coq_bytes)))
    A("Definition image_rect_square_src : list N := %s. (* %s *)" % (coq_bytes(S["image_rects"]["Square"]), S["image_rects"]["Square"]))
    A("Definition image_rect_circle_src : list N := %s. (* %s *)" % (coq_bytes(S["image_rects"]["Circle"]), S["image_rects"]["Circle"]))
    A("Definition image_rect_rounded_src : list N := %s. (* %s *)" % (coq_bytes(S["image_rects"]["RoundedSquare"]), S["image_rects"]["RoundedSquare"]))
    A("Definition image_elem_src : list N := %s. (* %s *)" % (coq_bytes(S["image_elem"]), S["image_elem"]))
    A("Definition image_rect_holes : list (list N) := %s." % coq_list(S["image_rect_holes"], coq_bytes))
    A("Definition escape_arms : list (list N * list N) := %s." %
      coq_list(S["escape_arms"], lambda e: "(" + coq_bytes(e[0].encode().decode("unicode_escape")) + ", " + coq_bytes(e[1]) + ")"))
    A("")
    return "\n".join(L)


def emit_purity(findings):
    L = []
    A = L.append
    A("(* GENERATED by tools/rs2v.py: lexical purity scan of /repo/src (non-test, non-hook). *)")
    A("From Coq Require Import NArith List String.")
    A("Import ListNotations.")
    A("Local Open Scope string_scope.")

    def q(s):
        return '"' + s.replace('"', '""') + '"'
    A("Definition purity_findings : list (string * string) := [" +
      "; ".join("(" + q(f[0]) + ", " + q(f[1]) + ")" for f in findings) + "].")
    A("")
    return "\n".join(L)


def fallback_from_dump(T, d):
    """When an item can no longer be PARSED (e.g. a match rewritten as an if-chain), finite-domain items are taken from the
    extensional dump (the same functions executed through rustc on their whole domain). Returns the list of degraded keys."""
    deg = []

    def need(k):
        return k not in T

    for k in ["max_bytes", "version_information", "alignment", "missing_bits", "ecc_groups", "format_info", "data_codewords",
              "percent_score", "log", "antilog"]:
        if need(k) and k in d:
            T[k] = d[k]
            deg.append(k)
    if (need("size_mul") or need("size_add")) and "version_size" in d:
        vs = d["version_size"]
        mul, add = vs[1] - vs[0], vs[0]
        if all(vs[i] == i * mul + add for i in range(40)):
            T["size_mul"], T["size_add"] = mul, add
            deg.append("size")
    if need("from_n") and "version_size" in d:
        T["from_n"] = [[x, i] for i, x in enumerate(d["version_size"])]
        deg.append("from_n")
    if need("data_bits_mul") and "data_bits" in d and "data_codewords" in T:
        T["data_bits_mul"] = d["data_bits"][0][0] // T["data_codewords"][0][0]
        deg.append("data_bits_mul")
    if need("cci") and "cci_bits" in d:
        cci = []
        for row in d["cci_bits"]:
            guards = []
            v = 39
            while v > 0:
                # start of the class that contains v
                s0 = v
                while s0 > 0 and row[s0 - 1] == row[v]:
                    s0 -= 1
                if s0 == 0:
                    break
                guards.append([s0, row[v]])
                v = s0 - 1
            cci.append([guards, row[0]])
        T["cci"] = cci
        deg.append("cci")
    if need("polynomial_arms") and "polynomial" in d:
        T["polynomial_arms"] = [[[[v, l]], d["polynomial"][l][v]] for l in range(4) for v in range(40)]
        deg.append("polynomial_arms")
    if need("version_get_arms") and "version_get_starts" in d and all(d.get("version_get_big_none", [False])):
        arms = []
        ok = True
        for starts in d["version_get_starts"]:
            a = []
            for i, (lo, v) in enumerate(starts):
                if v == 40:
                    if i != len(starts) - 1:
                        ok = False      # a gap: None in the middle cannot be expressed by contiguous arms alone
                    continue
                if i + 1 >= len(starts):
                    ok = False          # still Some(..) at the end of the dumped range
                    break
                a.append([lo, starts[i + 1][0] - 1, v])
            arms.append(a)
        if ok:
            T["version_get_arms"] = arms
            deg.append("version_get_arms")
    if (need("alnum_arms") or need("is_alnum_ranges")) and "alnum" in d:
        al = d["alnum"]
        T["alnum_arms"] = [[c, c, c, al[c][1]] for c in range(256) if al[c][1] >= 0]
        rng = []
        c = 0
        while c < 256:
            if al[c][0]:
                e = c
                while e + 1 < 256 and al[e + 1][0]:
                    e += 1
                rng.append([c, e])
                c = e + 1
            else:
                c += 1
        T["is_alnum_ranges"] = rng
        deg.append("alnum")
    return deg


def main():
    T, S = {}, {}
    errors = []
    for fn, arg in [(parse_version, T), (parse_hardcode, T), (parse_poly, T), (parse_encode, T),
                    (parse_compact, T), (parse_masking, T), (parse_misc, T), (parse_strings, S)]:
        try:
            fn(arg)
        except (ParseError, ValueError, AttributeError, KeyError, IndexError) as e:
            errors.append("%s: %s: %s" % (fn.__name__, type(e).__name__, e))
    degraded = []
    # positional literal lists (the model addresses the pieces of to_str()/path() by position): when a rewrite assembles the
    # same text from differently cut pieces (other count, other placeholder pattern) the positions mean nothing any more --
    # keep the authored pieces (stale: the tie for them is then the correspondence check on the rendered documents alone).
    # A changed literal with the same cut is translated as usual.
    try:
        base0 = json.load(open(os.path.join(VERIF, "tools", "tables_baseline.json")))
        cut = lambda l: [re.findall(r"\{[^}]*\}", x) for x in l]  # noqa
        for k in ("to_str", "path"):
            if k in S and k in base0["strings"] and cut(S[k]) != cut(base0["strings"][k]) and "--write-baseline" not in sys.argv:
                S[k] = base0["strings"][k]
                degraded.append("stale:" + k)
    except (OSError, ValueError, KeyError):
        pass
    if errors and "--dump" in sys.argv:
        try:
            d = json.load(open(sys.argv[sys.argv.index("--dump") + 1]))
            degraded += fallback_from_dump(T, d)
        except Exception as e:  # noqa
            errors.append("fallback: %s" % e)
    if errors and "--dump" in sys.argv:
        # constants that are neither parseable any more nor part of the extensional dump (widths, mode indicators, buffer
        # constants, mask offsets, string templates ...): keep the values recorded at authoring time. They are then NOT
        # re-derived from the source; the tie for them is the correspondence check alone (a changed constant makes the model
        # and the implementation disagree).
        try:
            base = json.load(open(os.path.join(VERIF, "tools", "tables_baseline.json")))
            for k, v in base["tables"].items():
                if k not in T:
                    T[k] = v
                    degraded.append("stale:" + k)
            for k, v in base["strings"].items():
                if k not in S:
                    S[k] = v
                    degraded.append("stale:" + k)
        except Exception as e:  # noqa
            errors.append("baseline fallback: %s" % e)
    if "--write-baseline" in sys.argv and not errors:
        with open(os.path.join(VERIF, "tools", "tables_baseline.json"), "w") as f:
            json.dump({"tables": T, "strings": S}, f, indent=0, sort_keys=True)
    findings = purity_scan()
    os.makedirs(WORK, exist_ok=True)
    with open(os.path.join(WORK, "tables_parsed.json"), "w") as f:
        json.dump({"tables": T, "strings": S, "purity": findings, "errors": errors, "degraded": degraded}, f, indent=0, sort_keys=True)
    if degraded:
        print("TRANSLATOR-DEGRADED items taken from the extensional dump (or, stale:, from the authored baseline): %s" % ", ".join(degraded))
    if errors:
        for e in errors:
            print("TRANSLATOR-%s %s" % ("NOTE" if degraded else "ERROR", e))
        # keep going only if the caller asks for it (check.py handles degradation)
        if "--allow-errors" not in sys.argv:
            return 2
    changed = []
    # parse functions fill several keys each; a function that failed half-way may leave non-dump keys missing
    try:
        if write_if_changed(os.path.join(OUT, "Tables.v"), emit_tables(T)):
            changed.append("Tables.v")
        if write_if_changed(os.path.join(OUT, "Strings.v"), emit_strings(S)):
            changed.append("Strings.v")
    except KeyError as e:
        print("TRANSLATOR-ERROR emit: missing %s" % e)
        return 2
    if write_if_changed(os.path.join(OUT, "Purity.v"), emit_purity(findings)):
        changed.append("Purity.v")
    print("rs2v: ok, changed=%s, purity_findings=%d" % (changed, len(findings)))
    return 0


if __name__ == "__main__":
    sys.exit(main())
