#!/usr/bin/env python3
"""Self-test of the fuzz-candidate handlers against false alarms: candidate inputs collected from differential searches on
seeded changes (wild inputs: random payload bytes, forced options, odd option histories) are run through every property's
handler on the CURRENT tree. On the unchanged tree every oracle and the correspondence must accept all of them.
usage: fuzz_selftest.py [--shuffle=<seed>] <cands.json> [...]   (files as written by tools/fuzzsearch.py into work/fuzz_cache)"""
import json, os, sys
sys.path.insert(0, os.path.dirname(os.path.abspath(__file__)))
import check, props
from fqlib import translate, build_harness, build_driver, Lock
cands = {}
args = [a for a in sys.argv[1:] if not a.startswith("--shuffle=")]
shuf = [a for a in sys.argv[1:] if a.startswith("--shuffle=")]
for f in args:
    d = json.load(open(f))["cands"]
    for k, v in d.items():
        cands.setdefault(k, [])
        cands[k] += [x for x in v if x not in cands[k]]
if shuf:
    import random
    r = random.Random(int(shuf[0].split("=")[1]))
    for k in cands:
        r.shuffle(cands[k])      # the handlers look at the first 150 (80 for raster) candidates of a stream: another slice each time
print({k: len(v) for k, v in cands.items()})
bad = 0
with Lock():
    tr_ok, tr_errs, parsed = translate()
    assert build_harness()[0] and build_driver()[0]
    for pid, spec in sorted(props.REGISTRY.items()):
        if "fuzz" not in spec:
            continue
        ctx = check.Ctx(pid, "quick", 0)
        ctx.parsed = parsed.get("tables", {})
        ctx.strings = parsed.get("strings", {})
        ctx.purity = parsed.get("purity", [])
        spec["fuzz"](ctx, cands)
        nf = len(ctx.oracle_failures) + len(ctx.tie_failures)
        bad += nf
        print(pid, "evaluations", ctx.evaluations, "oracle failures", len(ctx.oracle_failures), "tie failures", len(ctx.tie_failures))
        for x in (ctx.oracle_failures + ctx.tie_failures)[:3]:
            print("   ", json.dumps(x)[:600])
sys.exit(1 if bad else 0)
