#!/usr/bin/env python3
"""Coverage-guided WITNESS SEARCH (libFuzzer, cargo-fuzz) -- an aid for finding a failing input, never a verdict.

The fuzz targets in /verif/fuzz run the current /repo tree and the pinned reference copy of the crate (/verif/refimpl, the
tree the model was written against and on which every check passes) on the same decoded input and write out the inputs on
which the two behave differently, as case lines of the correspondence harness. The check then decides each candidate with the
property's own spec oracles; a behavioural difference that does not break the property produces nothing.

  * /repo/src identical to the reference  -> nothing to search, no cost (the unchanged tree).
  * a behaviour-preserving rewrite        -> no differing input, no candidates.
  * a changed behaviour                   -> candidates, found with branch-coverage and comparison feedback, which reaches
                                             rarely taken branches that random generation misses.
Results are cached per content hash of /repo/src, so the 19 checks share one search."""
import hashlib, json, os, random, shutil, subprocess, time  # noqa

V = os.path.dirname(os.path.dirname(os.path.abspath(__file__)))
REPO = os.environ.get("FQ_REPO", "/repo")
FUZZ = os.environ.get("FQ_FUZZ_DIR", os.path.join(V, "fuzz"))
REF = os.path.join(V, "refimpl")
WORK = os.environ.get("FQ_FUZZ_WORK", os.path.join(V, "work"))
BIN = os.path.join(FUZZ, "target", "x86_64-unknown-linux-gnu", "release")
ALNUM = b"0123456789ABCDEFGHIJKLMNOPQRSTUVWXYZ $%*+-./:"
DICT = ['"{0}"', '"{1}"', '"{2}"', '"{3}"', '"{}"', '"\\xce\\xce\\xce\\xce"', '"\\x11\\x11\\x11\\x11"', '"\\xef\\xbb\\xbf"', '"\\xfe\\xff"', '"\\xff\\xfe"', '"\\x1b"', '"\\xec\\x11"', '"data:"', '";base64,"', '"&"', '"<"', '">"', '"\\""', '"\'"', '"&amp;"', '"#"', '"http://"', '"https://"', '"image/png"',
        '"ffffff"', '"000000"', '"#ffffff"', '"#000000"', '"\\x09"', '"\\x0a"', '"\\x0d"', '"]]>"', '"utf8,"']


def src_hash(root):
    h = hashlib.sha256()
    for dp, dn, fn in sorted(os.walk(os.path.join(root, "src"))):
        dn.sort()
        for f in sorted(fn):
            if f.endswith(".rs"):
                p = os.path.join(dp, f)
                h.update(os.path.relpath(p, root).encode())
                h.update(open(p, "rb").read())
    return h.hexdigest()[:20]


def case_to_seed(case):
    """`build m e v k hex` -> input bytes of fuzz target build_diff"""
    p = case.split()
    data = bytes.fromhex(p[5]) if p[5] != "-" else b""
    if data and all(48 <= c <= 57 for c in data):
        alpha, enc = 1, bytes(c - 48 for c in data)
    elif data and all(c in ALNUM for c in data):
        alpha, enc = 2, bytes(ALNUM.index(c) for c in data)
    else:
        alpha, enc = 0, data
    mode_sel = 0 if p[1] == "-" else int(p[1]) + 1
    ecl_sel = 4 if p[2] == "-" else int(p[2])
    b0 = alpha | (mode_sel << 2) | (ecl_sel << 4)
    b1 = 200 if p[3] == "-" else int(p[3])
    b2 = 200 if p[4] == "-" else int(p[4])
    return bytes([b0, b1, b2]) + enc


def write_seeds(d, seeds):
    shutil.rmtree(d, ignore_errors=True)
    os.makedirs(d)
    for i, s in enumerate(seeds):
        open(os.path.join(d, "seed%05d" % i), "wb").write(s)


def build_seeds(caps):
    rng = random.Random(12345)
    if caps is None:
        try:
            arms = json.load(open(os.path.join(V, "tools", "tables_baseline.json")))["tables"]["version_get_arms"]
            caps = [[[x[1] for x in arms[m * 4 + l]] for l in range(4)] for m in range(3)]
        except (OSError, ValueError, KeyError, IndexError):
            caps = None
    small, large = [], []
    dig = lambda n: bytes(rng.randrange(48, 58) for _ in range(n))  # noqa
    aln = lambda n: bytes(rng.choice(ALNUM) for _ in range(n))  # noqa
    raw = lambda n: bytes(rng.randrange(256) for _ in range(n))  # noqa
    gens = [dig, aln, raw]
    for m in range(3):
        for n in (0, 1, 2, 3, 7, 8, 9, 15, 16, 17, 31, 32, 33, 60, 100):
            for fm in ("-", str(m), "2"):
                small.append(case_to_seed("build %s %s - - %s" % (fm, rng.choice(["-", "0", "1", "2", "3"]), gens[m](n).hex() or "-")))
        # beyond the version-40 capacity of level Q but within L, no level given; long pure digit / alphanumeric strings
        for n in (1664, 2954, 2421, 4297, 3994, 7089, 7090):
            large.append(case_to_seed("build - - - - %s" % gens[m](n).hex()))
            large.append(case_to_seed("build - 0 - - %s" % gens[m](n).hex()))
        small.append(case_to_seed("build - 0 - - %s" % (b"\x00" * 40).hex()))
        for pre in (b"\xef\xbb\xbf", b"\xfe\xff", b"\x00", b"http://", b"\x1b", b"+"):
            small.append(case_to_seed("build - 1 - - %s" % (pre + b"hello").hex()))
        for fm in ("0", "1", "2"):
            small.append(case_to_seed("build %s 1 - - -" % fm))
        small.append(case_to_seed("build - 0 - - %s" % (b"1" + b"0" * 50).hex()))
    if caps:
        for m in range(3):
            for e in range(4):
                for v in range(40):
                    hi = caps[m][e][v]
                    for n in (hi, hi + 1):
                        # forced / automatic mode, level (automatic = Q) and version, so that every default path has seeds too
                        case = "build %s %s %s - %s" % (rng.choice(["-", str(m)]), "-" if (e == 2 and rng.random() < 0.5) else str(e),
                                                        rng.choice(["-", str(v)]), gens[m](n).hex() or "-")
                        (small if n <= 150 else large).append(case_to_seed(case))
    if caps:
        # a payload denser than the forced mode, around and beyond the forced mode's version-40 capacity
        for fm, nat in ((2, 0), (2, 1), (1, 0)):
            for e in range(4):
                top = caps[fm][e][39]
                for n in (top, top + 1, top + 200):
                    large.append(case_to_seed("build %d %d - - %s" % (fm, e, gens[nat](n).hex())))
        # forced version, default level
        for m in range(3):
            for v in range(0, 40, 4):
                for n in (caps[m][2][v] + 1, caps[m][0][v]):
                    (small if n <= 150 else large).append(case_to_seed("build %d - %d - %s" % (m, v, gens[m](n).hex() or "-")))
    return small, large


def fuzz_candidates(tier, log, caps=None):
    """returns (candidates: dict stream -> list of case lines, note)"""
    if not os.path.isdir(REF) or not os.path.isdir(FUZZ):
        return {}, "fuzz search: not available (no reference copy / fuzz crate)"
    cur, ref = src_hash(REPO), src_hash(REF)
    if cur == ref:
        return {}, "fuzz search: /repo/src is identical to the reference copy the model was written against (%s): nothing to search" % ref
    budget = int(os.environ.get("FQ_FUZZ_SECONDS", "12" if tier == "quick" else "120"))
    if budget <= 0:
        return {}, "fuzz search: disabled (FQ_FUZZ_SECONDS=0)"
    cdir = os.path.join(WORK, "fuzz_cache")
    os.makedirs(cdir, exist_ok=True)
    # a cached search of at least this budget for the same tree is reused
    for f in sorted(os.listdir(cdir)):
        if f.startswith(cur + "_") and f.endswith(".json"):
            try:
                d = json.load(open(os.path.join(cdir, f)))
                if d.get("budget", 0) >= budget:
                    return d["cands"], d["note"] + " [cached]"
            except (OSError, ValueError):
                pass
    t0 = time.time()
    env = dict(os.environ, CARGO_NET_OFFLINE="true")
    try:
        p = subprocess.run(["cargo", "+nightly", "fuzz", "build", "--fuzz-dir", FUZZ, "-s", "none"], cwd=FUZZ, env=env,
                           stdout=subprocess.PIPE, stderr=subprocess.STDOUT, text=True, timeout=900)
    except (OSError, subprocess.TimeoutExpired) as e:
        return {}, "fuzz search: could not build the targets (%s); skipped" % e
    if p.returncode != 0:
        return {}, "fuzz search: the targets do not build against this tree (public API changed?); skipped: " + p.stdout[-300:].replace("\n", " | ")
    tb = time.time() - t0
    run = os.path.join(WORK, "fuzz_run")
    shutil.rmtree(run, ignore_errors=True)
    os.makedirs(run)
    small, large = build_seeds(caps)
    open(os.path.join(run, "dict.txt"), "w").write("\n".join(DICT) + "\n")
    imgs = [b"i.png", b"https://example.com/logo.png", b"data:image/png;base64,iVBORw0KGgo=", b"data:image/png;name=\"a.png\";base64,AAAA",
            b"data:image/svg+xml;utf8,<svg xmlns=\"http://www.w3.org/2000/svg\"/>", b"it's <&> \"q\"", b"a\tb\nc\rd", "caf\u00e9 \u20ac.png".encode()]
    svg_seeds = [bytes(40), bytes([5, 2, 0xff]) + bytes(range(3, 40)) + b"data:image/png;base64,AAAA"]
    # default image placement on every version; every image string on a small version; coloured layers
    svg_seeds += [bytes([160 + v, 2, 0x04]) + bytes(18) + b"i.png" for v in range(40)]
    svg_seeds += [bytes([1, 4, 0x04]) + bytes(18) + im for im in imgs]
    svg_seeds += [bytes([2, 1, 0x03, 255, 255, 255, 255, 0, 0, 0, 255]) + bytes(9) + bytes([2, 1, 1, 255, 255, 255, 255, 3, 1, 0, 0, 0, 255])]
    wasm_seeds = [b"\x00hello", b"\x03\x01\x00\x07#aabbcc\x03\x00\x04#fff\x04\x00\x05i.pngHELLO"]
    # long contents by repetition (first byte >> 5 selects the count): digits, alphanumerics, bytes
    wasm_seeds += [bytes([0xE0]) + b"77", bytes([0xE0]) + b"7", bytes([0xC0]) + b"1234567", bytes([0xC0]) + b"ABC D", bytes([0xE0]) + b"A",
                   bytes([0xC0]) + b"abcd", bytes([0xA0]) + b"hello world ", bytes([0xE0]) + b"12345"]
    wasm_seeds += [b"\x01\x04\x00" + bytes([len(im) % 24]) + im[:23] + b"HELLO" for im in imgs]
    # independent single-process fuzzers, each with its own corpus directory: 6 on short payloads (all short seeds), 4 on long
    # payloads (the capacity-threshold seeds are sharded: a version-40 build pair takes ~20 ms), 2 each on the SVG renderer and the wasm
    # bindings, 1 each on QRBuilder setter/build histories and on the raster renderer
    jobs = []
    for i in range(6):
        jobs.append(("build_diff", small, 200, "b%d" % i))
    for i in range(4):
        jobs.append(("build_diff", (large or small)[i::4], 8000, "B%d" % i))
    hist_seeds = [bytes([0, 2, 0, 14, 4]) + b"hello", bytes([2, 3, 6, 12, 1, 4]) + bytes(range(8)), bytes([1, 1, 4]) + bytes(range(6)),
                  bytes([0, 4, 6, 12, 3, 9, 4]) + b"Hello, World"]
    img_seeds = [bytes([3, 4, 7, 1, 0, 0, 9]), bytes([5, 4, 3, 5, 9, 4, 3, 2, 0, 0, 0, 0, 255, 255, 3, 1, 255, 255, 255, 0]),
                 bytes([2, 2, 3, 0, 0, 255, 255, 4, 8]), bytes([4, 4, 0, 5, 0, 4, 0, 4, 7])]
    for i in range(2):
        jobs.append(("svg_diff", svg_seeds, 120, "s%d" % i))
        jobs.append(("wasm_diff", wasm_seeds, 160, "w%d" % i))
    jobs.append(("hist_diff", hist_seeds, 60, "h0"))
    jobs.append(("img_diff", img_seeds, 60, "i0"))
    procs = []
    for target, seeds, maxlen, tag in jobs:
        exe = os.path.join(BIN, target)
        if not os.path.exists(exe):
            continue
        wd = os.path.join(run, "wd_" + tag)
        os.makedirs(wd)
        write_seeds(os.path.join(wd, "corpus"), seeds)
        cmd = [exe, os.path.join(wd, "corpus"), "-max_total_time=%d" % budget, "-max_len=%d" % maxlen, "-seed=%d" % (1 + len(procs)),
               "-use_value_profile=1", "-dict=" + os.path.join(run, "dict.txt")]
        e2 = dict(env, FQ_FUZZ_OUT=os.path.join(run, "cands_" + tag))
        procs.append(subprocess.Popen(cmd, cwd=wd, env=e2, stdout=subprocess.DEVNULL, stderr=subprocess.DEVNULL, start_new_session=True))
    deadline = time.time() + budget + 60
    for pr in procs:
        try:
            pr.wait(timeout=max(1, deadline - time.time()))
        except subprocess.TimeoutExpired:
            pass
        try:
            os.killpg(pr.pid, 9)       # the -jobs master and any worker still alive (own session, so nothing else)
        except OSError:
            pass
    found = {"build": set(), "svg": set(), "wasm": set(), "wasmqr": set(), "hist": set(), "raster": set()}
    for f in os.listdir(run):
        if f.startswith("cands_"):
            for line in open(os.path.join(run, f), errors="replace"):
                line = line.strip()
                k = line.split(" ", 1)[0]
                if k in found and len(line) < 60000:
                    found[k].add(line)
    rng = random.Random(7)
    cands = {}
    total = 0
    for k, st in found.items():
        total += len(st)
        lst = sorted(st, key=lambda x: (len(x), x))
        keep = lst[:120]
        rest = lst[120:]
        if rest:
            keep += rng.sample(rest, min(80, len(rest)))
        cands[k] = keep
    cands["wasm"] = cands.get("wasm", []) + cands.pop("wasmqr", [])
    shutil.rmtree(run, ignore_errors=True)
    note = ("fuzz search: tree differs from the reference copy; targets built in %.0fs, %d s of coverage-guided differential search on 16 "
            "workers found %d differing inputs (build %d, svg %d, wasm %d, hist %d, raster %d); up to 200 per stream are decided by the spec oracles"
            % (tb, budget, total, len(found["build"]), len(found["svg"]), len(found["wasm"]) + len(found["wasmqr"]), len(found["hist"]), len(found["raster"])))
    json.dump({"budget": budget, "cands": cands, "note": note}, open(os.path.join(cdir, "%s_%d.json" % (cur, budget)), "w"))
    # keep the cache small
    ents = sorted((os.path.getmtime(os.path.join(cdir, e)), e) for e in os.listdir(cdir))
    for _, e in ents[:-30]:
        os.remove(os.path.join(cdir, e))
    log("  [" + note + "]")
    return cands, note


if __name__ == "__main__":
    import sys
    c, n = fuzz_candidates(sys.argv[1] if len(sys.argv) > 1 else "quick", print)
    print(n)
    for k, v in c.items():
        print(k, len(v), [x[:100] for x in v[:3]])
