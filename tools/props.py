"""Per-property exploration sets: correspondence streams (model vs implementation) and spec oracles
(run on the implementation's outputs)."""
import json
import os
import subprocess

from fqlib import *  # noqa

DIGITS = b"0123456789"
ALNUM = b"0123456789ABCDEFGHIJKLMNOPQRSTUVWXYZ $%*+-./:"
MODES = ["numeric", "alnum", "byte"]


# ------------------------------------------------------------------------------------------ helpers
def caps(ctx):
    """cap[m][l][v] = largest length Version::get accepts for version v (from the parsed arms)"""
    arms = ctx.parsed.get("version_get_arms")
    if not arms:
        return None
    out = []
    for m in range(3):
        row = []
        for l in range(4):
            a = arms[m * 4 + l]
            row.append([x[1] for x in a])
        out.append(row)
    return out


def payload(rng, mode, n, kind="random"):
    if mode == 0:
        if kind == "zeros":
            return b"0" * n
        return bytes(rng.choice(DIGITS) for _ in range(n))
    if mode == 1:
        return bytes(rng.choice(ALNUM) for _ in range(n))
    if kind == "zeros":
        return b"\x00" * n
    if kind == "ff":
        return b"\xff" * n
    if kind == "pad":
        return bytes([0xEC, 0x11] * (n // 2 + 1))[:n]
    if kind == "ascii":
        return bytes(rng.randrange(32, 127) for _ in range(n))
    if kind.startswith("const"):
        return bytes([int(kind[5:], 16)]) * n
    if kind == "periodic":
        per = bytes(rng.randrange(256) for _ in range(rng.choice([1, 2, 3, 4, 8])))
        return (per * (n // len(per) + 1))[:n]
    if kind == "prefixed":
        pre = rng.choice(PREFIXES)
        return (pre + bytes(rng.randrange(256) for _ in range(max(0, n - len(pre)))))[:max(n, len(pre))]
    return bytes(rng.randrange(256) for _ in range(n))


# byte sequences that text-handling code likes to treat specially (byte order marks, NUL, escape, URL schemes, line ends)
PREFIXES = [b"\xef\xbb\xbf", b"\xfe\xff", b"\xff\xfe", b"\x00", b"\x1b", b"http://", b"HTTP://", b"https://", b"\r\n", b" ", b"\\", b"%", b"+",
            b"\xc3\xa9", b"\xe2\x82\xac", b"\xf0\x9f\x9a\x80", b"0x", b"-1", b"1e5", b"\t"]


def special_builds(ctx, quick_big=False):
    """build cases of kinds that random payloads practically never produce: special prefixes, the empty payload under every
    forced / automatic mode, constant and periodic payloads (small and filling the largest versions), tiny payloads in forced
    large versions, and denser-than-forced payloads beyond the forced mode's version-40 capacity"""
    rng = ctx.rng
    cp = caps(ctx)
    cases = []
    for pre in PREFIXES:
        cases.append(build_case(None, rng.randrange(4), None, None, pre + b"hello"))
        cases.append(build_case(None, None, None, None, pre))
        cases.append(build_case(2, 1, None, None, pre + b"1234"))
    # every byte value inside an otherwise alphanumeric / numeric payload (automatic mode): a character set with one wrong member
    for b in range(256):
        cases.append(build_case(None, 1, None, None, b"AB" + bytes([b]) + b"C1"))
        if not ctx.quick or b % 4 == 0:
            cases.append(build_case(None, 2, None, None, b"12" + bytes([b]) + b"34"))
    for fm in (None, 0, 1, 2):
        for e in (None, 0, 3):
            for v in (None, 0, 9, 39):
                cases.append(build_case(fm, e, v, None, b""))
    # 0xCE / 0x11: byte-mode payloads whose data codewords are the pad codewords 0xEC / 0x11 (the 12 header bits shift by a nibble)
    for cb in (0x00, 0xFF, 0xEC, 0x11, 0xCE, 0x55, 0xAA, 0x30, 0x41):
        for n in (1, 17, 106) + ((1273, 2953) if (quick_big or not ctx.quick) else ()):
            for e in ((0, 3) if n > 1000 else (1,)):
                if not (n == 2953 and e == 3):
                    cases.append(build_case(None, e, None, None, bytes([cb]) * n))
    for _ in range(6 if ctx.quick else 40):
        n = rng.choice([20, 55, 100, 300])
        cases.append(build_case(None, rng.randrange(4), None, None, payload(rng, 2, n, "periodic")))
        cases.append(build_case(None, rng.randrange(4), rng.choice([4, 9, 16]), None, payload(rng, 2, 5, "periodic")))
    # pad look-alike payloads that end before the version is full, so that genuine padding follows (every small version, two levels)
    for v in ((3, 5, 9) if ctx.quick else range(1, 12)):
        for e in (2, 3):
            for cb in (0xCE, 0x11):
                for n in ((17, 37) if ctx.quick else (9, 17, 18, 25, 37, 50)):
                    cases.append(build_case(2, e, v, None, bytes([cb]) * n))
    # a tiny payload in a forced large version (almost all padding), every level
    for v in ((35, 39) if ctx.quick else (30, 35, 36, 37, 38, 39)):
        for e in range(4):
            cases.append(build_case(None, e, v, None, b"HELLO"))
            cases.append(build_case(None, e, v, rng.randrange(8), b"12345"))
    if cp:
        # digits under forced Alphanumeric / Byte, alphanumerics under forced Byte, beyond the forced mode's V40 capacity
        for fm, nat in ((2, 0), (2, 1), (1, 0)):
            for e in (0, 2):
                top = cp[fm][e][39]
                for n in (top, top + 1, min(cp[nat][e][39], top + 500)):
                    cases.append(build_case(fm, e, None, None, payload(rng, nat, n)))
                    cases.append(build_case(fm, None if e == 2 else e, None, None, payload(rng, nat, n)))
        # forced version, NO level: the default level Q decides (lengths between the Q and the L capacity must be refused)
        for m in range(3):
            for v in ((0, 5, 9, 20, 39) if ctx.quick else range(0, 40, 3)):
                for n in (cp[m][2][v], cp[m][2][v] + 1, cp[m][1][v], cp[m][0][v]):
                    cases.append(build_case(m, None, v, None, payload(rng, m, n)))
    return cases


def history_sweeps(ctx):
    """sequences that only matter if something is remembered between builds: the same payload and version at every level,
    under every forced mask, with automatic and forced mask alternating, and plain repetitions -- executed IN ORDER IN ONE
    PROCESS (run_exe shards=1); the caller checks every output with its own oracles"""
    rng = ctx.rng
    cases = []
    for data, v in ((b"HELLO", 9), (b"12345", 16), (b"a" * 55, None), (b"hello world", 3), (payload(rng, 2, 30, "ascii"), 7)):
        for e in (0, 1, 2, 3, 0):
            cases.append(build_case(None, e, v, None, data))
        for k in (None, 0, 1, None, 7, 3, None):
            cases.append(build_case(None, 1, v, k, data))
        for fm in (2, None, 2):
            cases.append(build_case(fm, 1, v, None, data))
        cases.append(build_case(None, 1, v, None, data))
        cases.append(build_case(None, 1, v, None, data))
        cases.append(build_case(None, 1, (v or 4) + 1, None, data))
        cases.append(build_case(None, 1, v, None, data))
    return cases


def run_in_order(ctx, name, cases):
    """implementation outputs of the cases run sequentially in ONE process, and the (pure) model's outputs; disagreements are
    recorded like any correspondence disagreement"""
    impl = run_exe(FQH, cases, "h_seq_" + name, shards=1)
    model = run_exe(FQM, cases, "m_seq_" + name)
    st = ctx.streams.setdefault(name, {"cases": 0, "disagreements": 0})
    st["cases"] += len(cases)
    for c, a, b in zip(cases, impl, model):
        ctx.evaluations += 1
        if a != b:
            st["disagreements"] += 1
            if len(ctx.tie_failures) < 20:
                ctx.tie_failures.append({"stream": name, "case": c, "implementation": a[:2000], "model": b[:2000],
                                         "note": "cases of this stream run in order in one process"})
    return impl


def sweep_check(ctx, which=(), nopanic=False, outcome=False):
    cases = history_sweeps(ctx)
    before = len(ctx.oracle_failures)
    impl = run_in_order(ctx, "history_sweep", cases)
    if nopanic:
        no_panic(ctx, "history_sweep", cases, impl)
    if outcome:
        outcome_oracle(ctx, "history_sweep_outcome", cases, impl)
    if which:
        symbol_oracles(ctx, cases, impl, list(which))
    for f in ctx.oracle_failures[before:]:
        inp = f.get("input")
        if isinstance(inp, dict) and "case" in inp:
            inp["in_sequence"] = inp.pop("case")
            inp["note"] = "fails as part of the history sweep (cases run in order in one process); a replay repeats the exploration"


def special_check(ctx, which=(), nopanic=False, outcome=False, quick_big=False):
    cases = special_builds(ctx, quick_big)
    impl, _ = ctx.correspond("special_builds", cases)
    if nopanic:
        no_panic(ctx, "special_builds", cases, impl)
    if outcome:
        outcome_oracle(ctx, "special_builds_outcome", cases, impl)
    if which:
        symbol_oracles(ctx, cases, impl, list(which))
    return cases, impl


def opt(x):
    return "-" if x is None else str(x)


def build_case(m, e, v, k, data, stream="build"):
    return "%s %s %s %s %s %s" % (stream, opt(m), opt(e), opt(v), opt(k), hexs(data))


def gen_builds(ctx, count, versions=None, all_cells=False, forced_masks=True, stream="build"):
    """mostly-valid builds: (mode, level, version) cells with payloads at/near capacity and random lengths"""
    rng = ctx.rng
    cp = caps(ctx)
    cases = []
    dist = ctx.distribution.setdefault("build", {"mode": [0, 0, 0], "level": [0, 0, 0, 0], "forced_version": 0, "forced_mask": 0,
                                                 "forced_mode": 0, "len_hist": {}, "kinds": {}})

    def add(m, e, v, n, force_v, force_m, force_mode, kind="random"):
        data = payload(rng, m, n, kind)
        if force_mode and m > 0 and rng.random() < 0.3:
            # the forced mode is less dense than what the payload would get automatically (digits under Alphanumeric / Byte ...)
            data = payload(rng, rng.randrange(0, m), n, "random")
        fm = m if force_mode else None
        if not force_mode:
            # automatic mode must classify the payload as m for the length to fit: use mode-typical payloads
            if m == 2 and all(c in ALNUM for c in data) and n > 0:
                data = bytes([data[0] | 0x80]) + data[1:] if data[0] < 128 else data
            if m == 1 and all(c in DIGITS for c in data) and n > 0:
                data = b"A" + data[1:]
        cases.append(build_case(fm, e, v if force_v else None, force_m, data, stream))
        dist["mode"][m] += 1
        dist["level"][e] += 1
        dist["forced_version"] += 1 if force_v else 0
        dist["forced_mask"] += 0 if force_m is None else 1
        dist["forced_mode"] += 1 if force_mode else 0
        b = str(len(data).bit_length())
        dist["len_hist"][b] = dist["len_hist"].get(b, 0) + 1
        dist["kinds"][kind] = dist["kinds"].get(kind, 0) + 1

    if cp is None:
        return cases
    vs = versions if versions is not None else list(range(40))
    if all_cells:
        for v in vs:
            for e in range(4):
                for m in range(3):
                    hi = cp[m][e][v]
                    lo = cp[m][e][v - 1] + 1 if v > 0 else 0
                    add(m, e, v, hi, False, rng.randrange(8) if forced_masks else None, rng.random() < 0.5)
                    add(m, e, v, lo, False, None, rng.random() < 0.5)
    while len(cases) < count:
        m = rng.choice([0, 1, 2, 2])
        e = rng.randrange(4)
        v = rng.choice(vs) if rng.random() < 0.5 else min(vs[-1], int(abs(rng.gauss(0, 6))))
        hi = cp[m][e][v]
        lo = cp[m][e][v - 1] + 1 if v > 0 else 0
        r = rng.random()
        n = hi if r < 0.25 else lo if r < 0.4 else max(lo, hi - rng.randrange(0, 14)) if r < 0.6 else rng.randint(lo, hi)
        force_v = rng.random() < 0.3
        vv = v
        if force_v and rng.random() < 0.5:
            vv = min(39, v + rng.randrange(0, 4))
        kind = rng.choice(["random"] * 6 + ["zeros", "ff", "pad", "ascii"]) if m == 2 else rng.choice(["random"] * 4 + ["zeros"])
        add(m, e, vv, n, force_v, rng.randrange(8) if (forced_masks and rng.random() < 0.4) else None, rng.random() < 0.5, kind)
    return cases


def parse_build_out(line):
    """'OK v e k m n hex beyond' -> dict or None"""
    p = line.split()
    if len(p) >= 8 and p[0] == "OK":
        return {"v": int(p[1]), "e": int(p[2]), "k": int(p[3]), "m": int(p[4]), "n": int(p[5]), "hex": p[6], "beyond": int(p[7])}
    return None


def case_payload(case):
    h = case.split()[5]
    return b"" if h == "-" else bytes.fromhex(h)


def natural_mode(data):
    if all(c in DIGITS for c in data):
        return 0
    if all(c in ALNUM for c in data):
        return 1
    return 2


def outcome_oracle(ctx, name, cases, impl):
    """Ok / Err class and version of a build, decided by the ISO capacity formula for the mode and level IN EFFECT
    (forced, else automatic mode; forced, else level Q)"""
    tr = []
    for c, o in zip(cases, impl):
        p = c.split()
        data = case_payload(c)
        m = int(p[1]) if p[1] != "-" else natural_mode(data)
        e = int(p[2]) if p[2] != "-" else 2
        fv = None if p[3] == "-" else int(p[3])

        def exp(got, o=o, fv=fv, e=e, m=m):
            if got == "NONE":
                return o == "ERR1"
            mv = int(got)
            want_v = mv if fv is None else fv
            if fv is not None and fv < mv:
                return o == "ERR2"
            return o.startswith("OK %d %d " % (want_v, e)) and o.split()[4] == str(m)
        tr.append(("ominver %d %d %d" % (m, e, len(data)), exp, {"case": c}))
    ctx.oracle(name, tr)


def finding_key(f):
    return hashlib.sha256(json.dumps(f.get("input", f), sort_keys=True, default=str).encode()).hexdigest()[:16]


# ------------------------------------------------------------------------------------------ dump cross-check
def dump_crosscheck(ctx, tables):
    """execute every finite-domain item through the hooks and compare with what the translator parsed"""
    msgs = []
    try:
        out = subprocess.run([FQH, "tables"], stdout=subprocess.PIPE, timeout=600).stdout.decode()
        d = json.loads(out)
    except Exception as e:  # noqa
        return False, ["TABLES-DUMP failed: %s" % e]
    T = ctx.parsed
    ok = True

    def cmp(name, a, b):
        nonlocal ok
        if a != b:
            if not tables or name in tables or "all" in tables:
                ok = False
            msgs.append("DUMP-MISMATCH %s (relevant=%s)" % (name, (not tables) or name in tables or "all" in tables))

    try:
        cmp("log", T["log"], d["log"])
        cmp("antilog", T["antilog"], d["antilog"])
        cmp("max_bytes", T["max_bytes"], d["max_bytes"])
        cmp("missing_bits", T["missing_bits"], d["missing_bits"])
        cmp("version_information", T["version_information"], d["version_information"])
        cmp("version_size", [v * T["size_mul"] + T["size_add"] for v in range(40)], d["version_size"])
        cmp("alignment", T["alignment"], d["alignment"])
        cmp("ecc_groups", T["ecc_groups"], d["ecc_groups"])
        cmp("format_info", T["format_info"], d["format_info"])
        cmp("data_codewords", T["data_codewords"], d["data_codewords"])
        cmp("data_bits", [[x * T["data_bits_mul"] for x in r] for r in T["data_codewords"]], d["data_bits"])
        cci = []
        for m in range(3):
            th, dflt = T["cci"][m]
            row = []
            for v in range(40):
                val = dflt
                for t, b in th:
                    if v >= t:
                        val = b
                        break
                row.append(val)
            cci.append(row)
        cmp("cci", cci, d["cci_bits"])
        poly = []
        for l in range(4):
            row = []
            for v in range(40):
                r = []
                for pairs, coeffs in T["polynomial_arms"]:
                    if [v, l] in pairs:
                        r = coeffs
                        break
                row.append(r)
            poly.append(row)
        cmp("polynomial", poly, d["polynomial"])
        cmp("percent_score", T["percent_score"], d["percent_score"])
        al = []
        for c in range(256):
            isq = int(any(lo <= c <= hi for lo, hi in T["is_alnum_ranges"]))
            val = -1
            for lo, hi, sub, add in T["alnum_arms"]:
                if lo <= c <= hi:
                    val = c - sub + add
                    break
            al.append([isq, val])
        cmp("alnum", al, d["alnum"])
        starts = []
        for i in range(12):
            arms = T["version_get_arms"][i]
            s = []
            prev = -2
            # replay first-match semantics on 0..8000
            for ln in range(0, 8001):
                cur = 40
                for lo, hi, v in arms:
                    if lo <= ln <= hi:
                        cur = v
                        break
                if cur != prev:
                    s.append([ln, cur])
                    prev = cur
            starts.append(s)
        cmp("version_get", starts, d["version_get_starts"])
        if not all(d["version_get_big_none"]):
            cmp("version_get", 0, 1)
    except KeyError as e:
        msgs.append("DUMP-CROSSCHECK incomplete: missing %s" % e)
        ok = False
    return ok, msgs


# ------------------------------------------------------------------------------------------ corpus / replay
def corpus_file(pid):
    return os.path.join(VERIF, "corpus", pid + ".cases")


def run_corpus(ctx, spec):
    fn = corpus_file(ctx.pid)
    if not os.path.exists(fn):
        return
    cases = [l.strip() for l in open(fn) if l.strip() and not l.startswith("#")]
    if cases and "corpus" in spec:
        spec["corpus"](ctx, cases)


def replay(ctx, spec, rp):
    """re-run the recorded failing case(s): build-like cases go through the property's corpus function (correspondence +
    oracles); any other stream case is re-run through both executables (correspondence); without a case line the whole
    exploration is repeated"""
    cases = []
    for f in [rp.get("failure") or {}] + list(rp.get("all_failures") or []) + list(rp.get("tie_failures") or []):
        inp = f.get("input")
        c = inp.get("case") if isinstance(inp, dict) else inp if isinstance(inp, str) else f.get("case")
        if c and c not in cases and not c.startswith("vm_compute"):
            cases.append(c)
    build_like = [c for c in cases if c.split()[0] in ("build", "sel", "cands")]
    other = [c for c in cases if c not in build_like]
    if build_like and "corpus" in spec:
        spec["corpus"](ctx, [c.replace("sel ", "build ", 1).replace("cands ", "build ", 1) for c in build_like])
    if other:
        impl, model = ctx.correspond("replay", other)
        for c, a, b in zip(other, impl, model):
            log("replay %s\n  implementation: %s\n  model:          %s" % (c[:200], a[:200], b[:200]))
    if not cases or (build_like and "corpus" not in spec):
        spec["run"](ctx)


# ------------------------------------------------------------------------------------------ shared oracle plumbing
def symbol_oracles(ctx, cases, outs, which):
    """run the requested spec oracles on implementation build outputs"""
    tr = {w: [] for w in which}
    for c, o in zip(cases, outs):
        b = parse_build_out(o)
        if b is None:
            continue
        p = c.split()
        desc = {"case": c}
        mat = "%d %s" % (b["n"], b["hex"])
        data = case_payload(c)
        if "decode" in tr:
            exp = "OK %d %d %d 1 %d %s" % (b["v"], b["e"], b["k"], b["m"], hexs(data))
            tr["decode"].append(("odecode " + mat, exp, desc))
        if "fields" in tr:
            # reported = forced
            bad = []
            if p[1] != "-" and int(p[1]) != b["m"]:
                bad.append("mode")
            if (p[2] != "-" and int(p[2]) != b["e"]) or (p[2] == "-" and b["e"] != 2):
                bad.append("ecl")
            if p[3] != "-" and int(p[3]) != b["v"]:
                bad.append("version")
            if p[4] != "-" and int(p[4]) != b["k"]:
                bad.append("mask")
            if b["n"] != 17 + 4 * (b["v"] + 1):
                bad.append("size")
            ctx.count_oracle("fields", 1)
            if bad:
                ctx.direct_failure("fields", desc, "reported fields differ from forced/default: %s; output %s" % (bad, o[:60]))
        if "format" in tr:
            tr["format"].append(("oformat " + mat, "%d %d 1" % (b["e"], b["k"]), desc))
        if "format_forced" in tr:
            # the mask named by the symbol's format information is the FORCED one (and the level the one in effect)
            fk = b["k"] if p[4] == "-" else int(p[4])
            fe = b["e"] if p[2] == "-" else int(p[2])
            tr["format_forced"].append(("oformat " + mat, "%d %d 1" % (fe, fk), desc))
        if "fixed" in tr:
            tr["fixed"].append(("ofixed " + mat, "1", desc))
            ctx.count_oracle("beyond", 1)
            if b["beyond"] != 0:
                ctx.direct_failure("beyond", desc, "%d non-default modules outside the size x size square" % b["beyond"])
        if "labels" in tr:
            tr["labels"].append(("olabels " + mat, "1", desc))
        if "rs" in tr:
            tr["rs"].append(("ors " + mat, lambda got: got.endswith(" 1") and got != "NONE", desc))
    for w, t in tr.items():
        if t:
            ctx.oracle(w, t)


def no_panic(ctx, name, cases, outs):
    ctx.count_oracle(name + "-nopanic", len(cases))
    for c, o in zip(cases, outs):
        if o.startswith("PANIC") or o.startswith("CRASH"):
            ctx.direct_failure(name + "-nopanic", {"case": c}, "implementation " + o)


# ------------------------------------------------------------------------------------------ extraction self-check
def extraction_selfcheck(ctx):
    """a few build cases evaluated INSIDE Coq (vm_compute on the model) are compared with the extracted driver's answers:
    a wrong extraction, OCaml glue or int conversion shows up as a disagreement"""
    rng = ctx.rng
    samples = []
    for m, n, e in [(2, 5, None), (0, 9, 1), (1, 14, 3), (2, 40, 0)]:
        samples.append((payload(rng, m, n, "ascii" if m == 2 else "random"), e))
    defs = []
    for i, (data, e) in enumerate(samples):
        lst = "[" + "; ".join(str(b) for b in data) + "]%N"
        ecl = "None" if e is None else "Some (ecl_of_idx %d)" % e
        defs.append("Eval vm_compute in (match build_unchecked %s {| o_mode := None; o_ecl := %s; o_version := None; o_mask := None |} with "
                    "Ok q => [N.of_nat (q_version q); N.of_nat (q_mask q); N.of_nat (mode_idx (q_mode q)); hsh (flat_map (map cell_byte) (q_mat q))] | _ => [] end)." % (lst, ecl))
    src = ("From Coq Require Import NArith List.\nImport ListNotations.\nFrom FQ Require Import Lib.ListX Model.Types Model.Qr.\n"
           "Definition hsh (l : list N) : N := fold_left (fun a b => (a * 31 + b) mod 1000000007)%N l 7%N.\n" + "\n".join(defs) + "\n")
    fn = os.path.join(WORK, "selfcheck.v")
    open(fn, "w").write(src)
    rc, out, _ = sh("coqc -q -Q %s FQ %s" % (COQ, fn), cwd=WORK, timeout=600)
    coq_vals = [[int(x) for x in re.findall(r"(\d+)%N", blk)] for blk in out.split("= ")[1:]]
    cases = [build_case(None, e, None, None, data) for data, e in samples]
    outs = run_exe(FQM, cases, "selfcheck", shards=1)
    ctx.count_oracle("extraction_selfcheck", len(cases))
    ok = rc == 0 and len(coq_vals) == len(cases)
    for i, o in enumerate(outs):
        b = parse_build_out(o)
        if not ok or b is None:
            ok = False
            break
        hv = 7
        for k in range(0, len(b["hex"]), 2):
            hv = (hv * 31 + int(b["hex"][k:k + 2], 16)) % 1000000007
        if coq_vals[i] != [b["v"], b["k"], b["m"], hv]:
            ok = False
    if not ok:
        ctx.tie_failures.append({"stream": "extraction-selfcheck", "case": "vm_compute in Coq vs extracted driver disagree or could not run: %s" % out[-300:]})
    ctx.notes.append("extraction self-check: %d build cases evaluated by vm_compute inside Coq agree with the extracted driver: %s" % (len(cases), ok))


# ------------------------------------------------------------------------------------------ C01
def run_C01(ctx):
    extraction_selfcheck(ctx)
    n = 600 if ctx.quick else 12000
    cases = gen_builds(ctx, n, all_cells=not ctx.quick)
    if ctx.quick:
        cases += gen_builds(ctx, 60, versions=[0, 8, 9, 25, 26, 39], all_cells=True)[:144]
    impl, _ = ctx.correspond("build", cases)
    symbol_oracles(ctx, cases, impl, ["decode"])
    special_check(ctx, ["decode"])
    sweep_check(ctx, ["decode"])


def corpus_builds(which):
    def f(ctx, cases):
        impl, _ = ctx.correspond("corpus", cases)
        symbol_oracles(ctx, cases, impl, which)
    return f


# ------------------------------------------------------------------------------------------ C02
def run_C02(ctx):
    n = 400 if ctx.quick else 6000
    cases = gen_builds(ctx, n, all_cells=True, versions=None if not ctx.quick else [0, 4, 9, 14, 20, 26, 33, 39])
    impl, _ = ctx.correspond("build", cases)
    symbol_oracles(ctx, cases, impl, ["rs"])
    special_check(ctx, ["rs"])
    sweep_check(ctx, ["rs"])
    # structure stream with position-tagged bytes over all 160 layouts
    T = ctx.parsed
    sc = []
    for v in range(40):
        for e in range(4):
            g = T["ecc_groups"][e][v]
            d = max(T["data_codewords"][e][v], g[0] * g[1] + g[2] * g[3])
            tot = T["max_bytes"][v]          # the pipeline hands structure() a buffer of at least max_bytes bytes
            data = bytes(((i * 7 + 3) % 251) + 1 for i in range(d)) + bytes(tot - d)
            sc.append("struct %d %d %s" % (e, v, hexs(data)))
            if not ctx.quick or (v + e) % 5 == 0:
                sc.append("struct %d %d %s" % (e, v, hexs(bytes(ctx.rng.randrange(256) for _ in range(d)) + bytes(tot - d))))
    simpl, _ = ctx.correspond("structure", sc)
    tr = []
    for c, o in zip(sc, simpl):
        p = c.split()
        q = o.split()
        if len(q) == 3 and q[0] == "OK":
            tr.append(("orsstream %s %s %s %s" % (p[2], p[1], q[1], p[3]), "1", {"case": c}))
            ctx.count_oracle("structure_tail_zero", 1)
            if q[2] != "0":
                ctx.direct_failure("structure_tail_zero", {"case": c}, "non-zero bytes after the codewords: " + q[2])
    ctx.oracle("structure_blocks", tr)


# ------------------------------------------------------------------------------------------ C03 / C15
def run_C03(ctx):
    blanks = ["blank %d" % v for v in range(40)]
    impl, _ = ctx.correspond("blank", blanks)
    tr = []
    for c, o in zip(blanks, impl):
        p = o.split()
        if len(p) == 4 and p[0] == "OK":
            tr.append(("ofixed %s %s" % (p[1], p[2]), "1", {"case": c}))
            ctx.count_oracle("beyond", 1)
            if p[3] != "0":
                ctx.direct_failure("beyond", {"case": c}, "non-default modules outside the square: " + p[3])
        else:
            ctx.direct_failure("blank", {"case": c}, o[:80])
    ctx.oracle("fixed", tr)
    cases = gen_builds(ctx, 200 if ctx.quick else 4000, all_cells=not ctx.quick)
    impl, _ = ctx.correspond("build", cases)
    symbol_oracles(ctx, cases, impl, ["fixed"])
    special_check(ctx, ["fixed"])
    sweep_check(ctx, ["fixed"])


def run_C15(ctx):
    blanks = ["blank %d" % v for v in range(40)]
    impl, _ = ctx.correspond("blank", blanks)
    tr = []
    for c, o in zip(blanks, impl):
        p = o.split()
        if len(p) == 4 and p[0] == "OK":
            tr.append(("olabels %s %s" % (p[1], p[2]), "1", {"case": c}))
    ctx.oracle("labels", tr)
    cases = gen_builds(ctx, 200 if ctx.quick else 4000, all_cells=not ctx.quick)
    impl, _ = ctx.correspond("build", cases)
    symbol_oracles(ctx, cases, impl, ["labels"])
    special_check(ctx, ["labels"])
    sweep_check(ctx, ["labels"])


# ------------------------------------------------------------------------------------------ C04
def run_C04(ctx):
    cases = []
    # all (level, mask) x a spread of versions incl. 6/7 boundary, forced
    vs = [0, 5, 6, 9, 20, 39] if ctx.quick else list(range(40))
    for v in vs:
        for e in range(4):
            for k in range(8):
                cases.append(build_case(None, e, v, k, payload(ctx.rng, 2, 1 + (v + e + k) % 7, "ascii")))
    for v in range(40):
        cases.append(build_case(None, v % 4, v, (v * 3) % 8, payload(ctx.rng, 2, 2 + v % 5, "ascii")))
    # forced modes that are less dense than the automatic choice must be reported as forced
    for m, data in [(1, b"0123456789"), (2, b"0123456789"), (2, b"HELLO WORLD"), (1, b"")]:
        for e in range(4):
            cases.append(build_case(m, e, None, None, data))
    # no level given: level Q is in effect, also when the data would only fit a weaker level
    cp = caps(ctx)
    if cp:
        for m in range(3):
            hiq, hil = cp[m][2][39], cp[m][0][39]
            for n in [hiq, hiq + 1, (hiq + hil) // 2, hil, hil + 1]:
                cases.append(build_case(m, None, None, None, payload(ctx.rng, m, n)))
                cases.append(build_case(None, None, None, None, payload(ctx.rng, m, n, "random")))
        for _ in range(10 if ctx.quick else 200):
            m = ctx.rng.randrange(3)
            cases.append(build_case(None, None, None, None, payload(ctx.rng, m, ctx.rng.randrange(0, 300), "ascii" if m == 2 else "random")))
    cases += gen_builds(ctx, 150 if ctx.quick else 3000)
    impl, _ = ctx.correspond("build", cases)
    symbol_oracles(ctx, cases, impl, ["format", "fields", "decode"])
    outcome_oracle(ctx, "outcome_level_in_effect", cases, impl)
    fm = ["fmt %d %d %d" % (v, e, k) for v in ([0, 6, 39] if ctx.quick else range(40)) for e in range(4) for k in range(8)]
    ctx.correspond("format", fm)
    special_check(ctx, ["format", "fields"], outcome=True)
    sweep_check(ctx, ["format", "fields"])
    # "equal every option the caller forced" also after earlier builds on the same builder: an option set or changed between two
    # build() calls must show in the second symbol exactly as on a fresh builder
    hc = []
    for data in (b"HELLO WORLD", b"12345", b"hello"):
        nm = natural_mode(data)
        for key, vals in (("mask", (0, 3, 7)), ("ecl", (0, 3)), ("version", (1, 5, 9)), ("mode", (2, nm))):
            for a_ in vals:
                hc.append("hist %s build %s=%d build" % (hexs(data), key, a_))
                for b_ in vals:
                    if a_ != b_:
                        hc.append("hist %s %s=%d build %s=%d build build" % (hexs(data), key, a_, key, b_))
        hc.append("hist %s build mask=2 build ecl=3 build version=7 build mask=5 build" % hexs(data))
    check_hist_cases(ctx, hc)


# ------------------------------------------------------------------------------------------ C05
def run_C05(ctx):
    cp = caps(ctx)
    # Version::get against the ISO capacity formula: every length 0..=7200 (thorough: ..8000) x 12
    top = 7200 if ctx.quick else 8000
    vg = ["vget %d %d %d" % (m, e, n) for m in range(3) for e in range(4) for n in range(0, top + 1)]
    vg += ["vget %d %d %d" % (m, e, n) for m in range(3) for e in range(4)
           for n in [10 ** 4, 65535, 65536, 10 ** 6, 2 ** 31, 2 ** 32 + 5, 2 ** 63, 2 ** 64 - 1]]
    impl, _ = ctx.correspond("version_get", vg, nontrivial=lambda c, o: True)
    tr = []
    for c, o in zip(vg, impl):
        p = c.split()
        tr.append(("ominver %s %s %s" % (p[1], p[2], p[3]), o, {"case": c}))
    ctx.oracle("min_version", tr)
    # builds at the thresholds: hi, hi+1 for every cell; forced versions below / at / above the minimum
    cases = []
    rng = ctx.rng
    if cp:
        for m in range(3):
            for e in range(4):
                for v in (range(40) if not ctx.quick else [0, 1, 8, 9, 25, 26, 38, 39]):
                    hi = cp[m][e][v]
                    for n in (hi, hi + 1):
                        data = payload(rng, m, n)
                        cases.append(build_case(m, e, None, None, data))
                        fv = rng.randrange(40)
                        cases.append(build_case(m, e, fv, None, data))
                    if v > 0:
                        cases.append(build_case(m, e, v - 1, None, payload(rng, m, hi)))
                    # the forced version holds exactly hi characters: hi + 1 .. hi + 3 must be refused (every residue mod 3)
                    for d in (1, 2, 3):
                        cases.append(build_case(m, e, v, None, payload(rng, m, hi + d)))
                    cases.append(build_case(m, e, min(39, v + 1), None, payload(rng, m, hi)))
        if ctx.quick:
            for m in range(3):
                for e in range(4):
                    for v in range(40):
                        if v not in (0, 1, 8, 9, 25, 26, 38, 39):
                            cases.append(build_case(m, e, v, None, payload(rng, m, cp[m][e][v] + 1)))
        # a forced mode that is less dense than the automatic choice: capacity must follow the FORCED mode
        for fm, nat in [(2, 0), (2, 1), (1, 0)]:
            for e in range(4):
                for v in ([0, 1, 5, 9, 24, 39] if ctx.quick else range(40)):
                    hi = cp[fm][e][v]
                    for n in (hi, hi + 1):
                        data = payload(rng, nat, n)
                        cases.append(build_case(fm, e, None, None, data))
                        cases.append(build_case(fm, e, v, None, data))
        for n in [7090, 7500, 8000] + ([20000] if not ctx.quick else []):
            cases.append(build_case(0, 0, None, None, payload(rng, 0, n)))
            cases.append(build_case(2, 3, rng.randrange(40), None, payload(rng, 2, n)))
    impl, _ = ctx.correspond("build", cases)
    no_panic(ctx, "build", cases, impl)
    # oracle: outcome class and version per the ISO formula
    tr = []
    for c, o in zip(cases, impl):
        p = c.split()
        m, e = int(p[1]), int(p[2])
        n = len(case_payload(c))
        fv = None if p[3] == "-" else int(p[3])

        def exp(got, o=o, fv=fv):
            if got == "NONE":
                return o == "ERR1"
            mv = int(got)
            if fv is None:
                return o.startswith("OK %d " % mv)
            if fv >= mv:
                return o.startswith("OK %d " % fv)
            return o == "ERR2"
        tr.append(("ominver %d %d %d" % (m, e, n), exp, {"case": c}))
    ctx.oracle("build_outcome", tr)
    symbol_oracles(ctx, cases, impl, ["decode"])
    special_check(ctx, ["decode"], nopanic=True, outcome=True)
    sweep_check(ctx, ["decode"], outcome=True)


# ------------------------------------------------------------------------------------------ C06
def check_data_codewords(ctx, bc, tag="build"):
    """data codewords read back from the implementation's symbols (ISO placement / unmasking / de-interleaving oracle) equal
    the ISO 18004 encoding of the payload for the symbol's mode, version and level (indicator, count, bits, terminator, padding)"""
    impl = ctx.run_impl(tag, bc)
    tr = []
    for c, o in zip(bc, impl):
        b = parse_build_out(o)
        if b:
            tr.append(("odcw %d %s" % (b["n"], b["hex"]), None, (c, b)))
    outs = run_exe(FQM, [t[0] for t in tr], "o_dcw")
    tr2 = []
    for (oc, _, (c, b)), got in zip(tr, outs):
        tr2.append(("oisocw %d %d %d %s" % (b["m"], b["v"], b["e"], c.split()[5]), got, {"case": c}))
    ctx.oracle("symbol_data_codewords", tr2)


def run_C06(ctx):
    cp = caps(ctx)
    T = ctx.parsed
    rng = ctx.rng
    cases = []
    if cp:
        vs = range(40) if not ctx.quick else [0, 1, 8, 9, 10, 25, 26, 27, 39]
        for m in range(3):
            for e in range(4):
                for v in vs:
                    hi = cp[m][e][v]
                    lens = {0, 1, 2, 3, 4, 5, hi, max(0, hi - 1), max(0, hi - 2), max(0, hi - 3), hi // 2, hi // 2 + 1, hi // 3}
                    if not ctx.quick:
                        lens |= {max(0, hi - k) for k in range(4, 14)}
                    for n in sorted(lens):
                        if n <= hi:
                            cases.append("enc %d %d %d %s" % (m, e, v, hexs(payload(rng, m, n, rng.choice(["random", "zeros", "random"])))))
    impl, _ = ctx.correspond("encode", cases)
    no_panic(ctx, "encode", cases, impl)
    tr = []
    for c, o in zip(cases, impl):
        p = c.split()
        q = o.split()
        if len(q) == 5 and q[0] == "OK":
            m, e, v = int(p[1]), int(p[2]), int(p[3])
            d = T["data_codewords"][e][v]
            got_d = q[3][:2 * d]
            tr.append(("oisocw %d %d %d %s" % (m, v, e, p[4]), got_d, {"case": c}))
    ctx.oracle("iso_codewords", tr)
    # push_bits sequences
    pb = []
    for i in range(300 if ctx.quick else 20000):
        ops = []
        for _ in range(rng.randrange(1, 12)):
            r = rng.random()
            if r < 0.7:
                w = rng.choice([0, 1, 3, 4, 6, 7, 8, 9, 10, 11, 12, 13, 14, 16, rng.randrange(0, 65)])
                x = rng.getrandbits(64) if rng.random() < 0.3 else rng.getrandbits(max(1, w))
                ops.append("%d:%d" % (x, w))
            elif r < 0.85:
                ops.append("u8:%02x" % rng.randrange(256))
            else:
                ops.append("sl:" + hexs(bytes(rng.randrange(256) for _ in range(rng.randrange(1, 5)))))
        pb.append("pushbits %d %s" % (rng.choice([0, 1, 4, 40]), " ".join(ops)))
    ctx.correspond("push_bits", pb)
    # end to end: data codewords read back from real symbols
    bc = gen_builds(ctx, 150 if ctx.quick else 3000)
    check_data_codewords(ctx, bc)
    sc_, _ = special_check(ctx)
    check_data_codewords(ctx, sc_, "special_builds")


# ------------------------------------------------------------------------------------------ C07
def run_C07(ctx):
    T = ctx.parsed
    rng = ctx.rng
    gens = {}
    lens = {}
    for e in range(4):
        for v in range(40):
            g = None
            for pairs, coeffs in T["polynomial_arms"]:
                if [v, e] in pairs:
                    g = coeffs
                    break
            c1, s1, c2, s2 = T["ecc_groups"][e][v]
            gens[len(g)] = g
            lens.setdefault(len(g), set()).update([s1] + ([s2] if c2 else []))
    cases = []
    for gl, g in sorted(gens.items()):
        ls = sorted(lens[gl])
        if ctx.quick:
            ls = sorted(set([ls[0], ls[-1], ls[len(ls) // 2]]))
        for n in ls:
            pos = sorted(set([0, n - 1, n // 2]))
            for i in pos:
                bs = range(1, 256) if not ctx.quick else [1, 2, 3, 29, 76, 128, 200, 254, 255]
                for b in bs:
                    d = bytearray(n)
                    d[i] = b
                    cases.append("div %s %s" % (hexs(bytes(d)), hexs(bytes(g))))
            for _ in range(3 if ctx.quick else 30):
                d = bytearray(rng.randrange(256) for _ in range(n))
                for _ in range(rng.randrange(0, 4)):
                    d[rng.randrange(n)] = 0
                if rng.random() < 0.3:
                    d[0] = 0
                cases.append("div %s %s" % (hexs(bytes(d)), hexs(bytes(g))))
            cases.append("div %s %s" % (hexs(bytes(n)), hexs(bytes(g))))
    impl, _ = ctx.correspond("division", cases)
    no_panic(ctx, "division", cases, impl)
    tr = []
    for c, o in zip(cases, impl):
        p = c.split()
        q = o.split()
        k = len(p[2]) // 2 - 1
        if len(q) == 2 and q[0] == "OK":
            tr.append(("oec %s %d" % (p[1], k), q[1][-2 * k:], {"case": c}))
    ctx.oracle("poly_rem", tr)
    # the EC codewords actually emitted for every (version, level): structure() on all 160 layouts, blocks read back by the
    # Table 9 de-interleaver must have zero syndromes and carry the data
    sc = []
    for v in range(40):
        for e in range(4):
            g = T["ecc_groups"][e][v]
            d = max(T["data_codewords"][e][v], g[0] * g[1] + g[2] * g[3])
            tot = T["max_bytes"][v]
            sc.append("struct %d %d %s" % (e, v, hexs(bytes(rng.randrange(256) for _ in range(d)) + bytes(tot - d))))
            # blocks with equal content / equal prefixes: constant and short-period data (what padding looks like)
            if not ctx.quick or (v + e) % 3 == 0:
                sc.append("struct %d %d %s" % (e, v, hexs(bytes([rng.choice([0, 0xEC, 0x11, 0x41])]) * d + bytes(tot - d))))
                sc.append("struct %d %d %s" % (e, v, hexs((bytes([0xEC, 0x11]) * d)[:d] + bytes(tot - d))))
                per = bytes(rng.randrange(256) for _ in range(rng.choice([3, 5, 7])))
                sc.append("struct %d %d %s" % (e, v, hexs((per * d)[:d] + bytes(tot - d))))
                # only the two pad codewords, but NOT alternating (runs, random order), followed by genuine padding
                k_ = rng.randrange(1, max(2, d))
                body = bytes(rng.choice([0xEC, 0x11]) for _ in range(k_)) if rng.random() < 0.5 else bytes([rng.choice([0xEC, 0x11])]) * k_
                sc.append("struct %d %d %s" % (e, v, hexs((body + bytes([0xEC, 0x11]) * d)[:d] + bytes(tot - d))))
    simpl, _ = ctx.correspond("structure", sc)
    tr = []
    for c, o in zip(sc, simpl):
        p = c.split()
        q = o.split()
        if len(q) == 3 and q[0] == "OK":
            tr.append(("orsstream %s %s %s %s" % (p[2], p[1], q[1], p[3]), "1", {"case": c}))
        else:
            ctx.direct_failure("structure", {"case": c}, o[:60])
    ctx.oracle("emitted_ec_is_remainder", tr)
    special_check(ctx, ["rs"])
    sweep_check(ctx, ["rs"])


# ------------------------------------------------------------------------------------------ C08
def run_C08(ctx):
    rng = ctx.rng
    cases = []
    for v in range(40):
        for k in range(8):
            cases.append("mask %d %d -" % (v, k))
            if not ctx.quick or (v * 8 + k) % 4 == 0:
                cases.append("mask %d %d %s" % (v, k, hexs(bytes([255]) * 3800)))
            if not ctx.quick or (v * 8 + k) % 7 == 0:
                cases.append("mask %d %d %s" % (v, k, hexs(bytes(rng.randrange(256) for _ in range(3800)))))
    impl, _ = ctx.correspond("mask", cases)
    # oracle: before (place only) vs after
    pl = {}
    pcases = sorted(set("place %s %s" % (c.split()[1], c.split()[3]) for c in cases))
    pout = ctx.run_impl("place", pcases)
    for c, o in zip(pcases, pout):
        pl[c] = o
    tr = []
    for c, o in zip(cases, impl):
        p = c.split()
        b = pl["place %s %s" % (p[1], p[3])].split()
        a = o.split()
        if len(a) == 4 and len(b) == 4 and a[0] == "OK":
            tr.append(("omaskiso %s %s %s %s" % (p[2], a[1], b[2], a[2]), "1", {"case": c}))
        else:
            ctx.direct_failure("mask", {"case": c}, o[:60])
    ctx.oracle("iso_mask", tr)
    # through the public API: same payload, two forced masks
    bc = []
    for i in range(40 if ctx.quick else 600):
        m = rng.choice([0, 1, 2])
        e = rng.randrange(4)
        data = payload(rng, m, rng.randrange(1, 60))
        a, b = rng.sample(range(8), 2)
        bc.append(build_case(None, e, None, a, data))
        bc.append(build_case(None, e, None, b, data))
    impl, _ = ctx.correspond("build", bc)
    symbol_oracles(ctx, bc, impl, ["decode", "format_forced", "fixed"])
    special_check(ctx, ["decode", "format_forced"])
    sweep_check(ctx, ["decode", "format_forced"])


# ------------------------------------------------------------------------------------------ C09
def run_C09(ctx):
    rng = ctx.rng
    cases = ["best -"]
    for a in range(256):
        cases.append("best %02x" % a)
    step = 1 if not ctx.quick else 5
    for a in range(0, 256, step):
        for b in range(0, 256, step):
            cases.append("best %02x%02x" % (a, b))
    reps = [b"5", b"K", b"~"]
    import itertools
    for n in range(1, 9 if not ctx.quick else 7):
        for pat in itertools.product(range(3), repeat=n):
            cases.append("best " + hexs(b"".join(reps[i] for i in pat)))
    # single-byte perturbation basis: every byte value at every position of uniform digit / alphanumeric strings whose
    # lengths straddle word-sized blocks (8, 16) -- catches block-wise "optimised" scanners
    for base in (b"7", b"K"):
        for ln in ([1, 3, 7, 8, 9, 16, 17] if ctx.quick else [1, 2, 3, 4, 7, 8, 9, 15, 16, 17, 24, 31, 32, 33]):
            for pos in range(ln):
                for b in range(256):
                    d = bytearray(base * ln)
                    d[pos] = b
                    cases.append("best " + hexs(bytes(d)))
    for _ in range(300 if ctx.quick else 5000):
        n = rng.randrange(1, 400)
        m = rng.randrange(3)
        d = bytearray(payload(rng, m, n))
        if rng.random() < 0.5 and n > 0:
            d[rng.randrange(n)] = rng.randrange(256)
        cases.append("best " + hexs(bytes(d)))
    # long inputs: lengths around every power of two and every V40 capacity (a length-dependent shortcut in the scanner
    # would sit at such a threshold), pure and with one foreign byte at the start / middle / end
    lens = set()
    for k in range(4, 14):
        lens |= {2 ** k - 1, 2 ** k, 2 ** k + 1}
    for cap in (1273, 1663, 2331, 2953, 1852, 2420, 3391, 4296, 3057, 3993, 5596, 7089):
        lens |= {cap - 1, cap, cap + 1}
    lens |= {1000, 3000, 5000, 6000, 7200, 7500}
    if not ctx.quick:
        lens |= set(range(100, 8200, 100)) | {10000, 20000, 65535, 65536, 65537}
    for ln in sorted(lens):
        for base in (b"7", b"K", b"k"):
            cases.append("best " + hexs(base * ln))
            for pos in (0, ln // 2, ln - 1):
                for b in ((0x4B, 0x6B, 0xFC) if ctx.quick else (0x20, 0x4B, 0x6B, 0x3A, 0x2F, 0xBA, 0xFC)):
                    d = bytearray(base * ln)
                    d[pos] = b
                    cases.append("best " + hexs(bytes(d)))
    impl, _ = ctx.correspond("best_encoding", cases)
    tr = [("omode " + c.split()[1], o, {"case": c}) for c, o in zip(cases, impl)]
    ctx.oracle("iso_mode", tr)
    al = ["alnum %d" % c for c in range(256)]
    ctx.correspond("alnum_table", al)
    # automatic mode never rejects: builds in auto mode decode
    bc = []
    for _ in range(60 if ctx.quick else 1000):
        m = rng.randrange(3)
        bc.append(build_case(None, rng.randrange(4), None, None, payload(rng, m, rng.randrange(0, 80), "ascii" if m == 2 else "random")))
    for b in range(256):
        bc.append(build_case(None, 1, None, None, b"AB" + bytes([b])))
        bc.append(build_case(None, 1, None, None, b"12" + bytes([b]) + b"34567890"))
    # automatic mode at the V40 capacities of the densest mode that applies (must build and decode)
    for m, caps40 in ((0, (3057, 3993, 5596, 7089)), (1, (1852, 2420, 3391, 4296)), (2, (1273, 1663, 2331, 2953))):
        for e, n in zip((3, 2, 1, 0), caps40):
            for nn in ((n,) if ctx.quick else (n - 1, n)):
                bc.append(build_case(None, e, None, None, payload(rng, m, nn)))
    impl, _ = ctx.correspond("build", bc)
    no_panic(ctx, "build", bc, impl)
    symbol_oracles(ctx, bc, impl, ["decode"])
    special_check(ctx, ["decode"])


# ------------------------------------------------------------------------------------------ C10
def run_C10(ctx):
    extraction_selfcheck(ctx)
    rng = ctx.rng
    cp = caps(ctx)
    cases = gen_builds(ctx, 500 if ctx.quick else 10000, all_cells=not ctx.quick)
    # boundary lengths in every mode/level, automatic everything and forced mode
    if cp:
        for m in range(3):
            for e in range(4):
                lens = set([0, 1, 2, 3])
                for v in range(40):
                    lens |= {cp[m][e][v], cp[m][e][v] + 1}
                lens = sorted(lens)
                sub = set(lens[::4] + lens[-3:])
                for n in lens:
                    for kind in (["random", "zeros", "ff", "pad"] if m == 2 else ["random", "zeros"]):
                        # quick: every threshold with a random payload, the special payloads on a subsample
                        if ctx.quick and kind != "random" and (n % 3 or n not in sub):
                            continue
                        cases.append(build_case(m, e, None, None, payload(rng, m, n, kind)))
        step = 97 if ctx.quick else 7
        for n in range(0, 8001, step):
            cases.append(build_case(None, rng.randrange(4), None, None, payload(rng, rng.randrange(3), n)))
    for b in range(256):
        cases.append(build_case(None, rng.randrange(4), None, None, b"AB" + bytes([b])))
        cases.append(build_case(None, rng.randrange(4), None, None, b"7" * 8 + bytes([b]) + b"7" * 7))
    # a FORCED version at its exact capacity, one below and one to three above (must be Ok / refused, never a panic)
    if cp:
        for m in range(3):
            for e in range(4):
                for v in ([0, 8, 9, 10, 17, 25, 26, 27, 33, 39] if ctx.quick else range(40)):
                    hi = cp[m][e][v]
                    for n in ((hi, hi + 1) if ctx.quick else (hi - 1, hi, hi + 1, hi + 2, hi + 3)):
                        if n >= 0:
                            cases.append(build_case(m, e, v, None, payload(rng, m, n)))
    impl, _ = ctx.correspond("build", cases)
    no_panic(ctx, "build", cases, impl)
    for c, o in zip(cases, impl):
        if not (o.startswith("OK ") or o in ("ERR1", "ERR2")):
            ctx.direct_failure("total", {"case": c}, "outcome is neither Ok nor a documented error: " + o[:60])
    # negative controls: the predicate must be able to say PANIC
    neg = [build_case(0, None, None, None, b"12a4"), build_case(1, None, None, None, b"abc"),
           "div %s %s" % (hexs(bytes(200)), hexs(bytes(100)))]
    nimpl, nmodel = ctx.correspond("negative-controls", neg)
    ctx.count_oracle("negative-controls", len(neg))
    for c, o in zip(neg, nimpl):
        if o != "PANIC":
            ctx.direct_failure("negative-controls", {"case": c}, "expected PANIC (harness cannot observe panics?) got " + o[:40])
    # component streams under debug assertions
    run_C07_small = ["div %s %s" % (hexs(bytes(rng.randrange(256) for _ in range(n))), hexs(bytes([0] + [rng.randrange(255) for _ in range(k)])))
                     for n, k in [(9, 17), (123, 30), (19, 7), (68, 18), (1, 30), (121, 30)] for _ in range(3)]
    o2, _ = ctx.correspond("division", run_C07_small)
    no_panic(ctx, "division", run_C07_small, o2)
    special_check(ctx, nopanic=True, outcome=True, quick_big=True)
    sweep_check(ctx, nopanic=True, outcome=True)


# ------------------------------------------------------------------------------------------ C11
def check_selection(ctx, bulk, tag="cands", in_order=False):
    """`cands` cases (implementation + documented-penalty oracle only): the score used for ranking every candidate of the real
    selection loop equals the documented penalty of that candidate, and the chosen mask has minimal penalty. With in_order the
    cases (which may be interleaved with other stream lines, e.g. forced-mask builds) run sequentially in ONE process."""
    if in_order:
        bo = run_exe(FQH, bulk, "h_seq_" + tag, shards=1)
        ctx.evaluations += len(bulk)
        pairs = [(c, o) for c, o in zip(bulk, bo) if c.startswith("cands ")]
        bulk, bo = [c for c, _ in pairs], [o for _, o in pairs]
    else:
        bo = ctx.run_impl(tag, bulk)
    btr, bmeta = [], []
    for c, o in zip(bulk, bo):
        q = o.split()
        if len(q) < 3 or q[0] != "OK":
            continue
        if len(q) != 11:
            # "all eight ISO mask patterns are tried on the same placed codewords": the recorder hook sits in the selection loop
            ctx.count_oracle("selection_minimal", 1)
            ctx.direct_failure("selection_minimal", {"case": c}, "the selection loop scored %d candidates, not 8 (chosen mask %s)" % (len(q) - 3, q[1]))
            continue
        for tok in q[3:]:
            k, sc_, hx = tok.split(":")
            btr.append("openalty %s %s" % (q[2], hx))
            bmeta.append((c, int(q[1]), int(k), int(sc_)))
    bouts = run_exe(FQM, btr, "o_pen_" + tag)
    ctx.count_oracle("iso_penalty", len(bouts))
    bper = {}
    for (c, chosen, k, s_), got in zip(bmeta, bouts):
        try:
            pen = int(got)
        except ValueError:
            ctx.direct_failure("iso_penalty", {"case": c}, "oracle output " + got[:60])
            continue
        d = bper.setdefault(c, {"chosen": chosen, "pens": {}, "used": {}})
        d["pens"][k] = pen
        d["used"][k] = s_
    ctx.count_oracle("selection_minimal", len(bper))
    deviations = []
    nfail = 0
    for c, d in bper.items():
        if len(d["pens"]) != 8 or d["pens"][d["chosen"]] != min(d["pens"].values()):
            nfail += 1
            ctx.direct_failure("selection_minimal", {"case": c}, "chosen mask %d has documented penalty %d, the minimum is %d; documented penalties %s, scores used for ranking %s"
                               % (d["chosen"], d["pens"].get(d["chosen"], -1), min(d["pens"].values()), d["pens"], d["used"]))
        elif d["used"] != d["pens"]:
            deviations.append((c, d))
    # A score used for ranking that is not the documented penalty, while the emitted mask is still a minimal one, does not by
    # itself contradict the property (the statement is about the emitted mask): it breaks the tie (the proof of minimality goes
    # through score = penalty), so a failing selection is searched for -- once per run, 20 000 small symbols -- and, failing that,
    # the deviation is reported as a broken correspondence.
    if deviations and not nfail:
        if not getattr(ctx, "_selection_search_done", False) and not tag.startswith("search"):
            ctx._selection_search_done = True
            rng = ctx.rng
            extra = []
            for i in range(20000):
                m = rng.choice([0, 1, 2, 2])
                extra.append(build_case(None, rng.randrange(4), None, None, payload(rng, m, rng.randrange(1, 40), "ascii" if m == 2 else "random"), "cands"))
            before = len(ctx.oracle_failures)
            check_selection(ctx, extra, "search_" + tag)
            if len(ctx.oracle_failures) > before:
                return
        for c, d in deviations[:5]:
            if len(ctx.tie_failures) < 20:
                ctx.tie_failures.append({"stream": "ranking-score", "case": c, "implementation": "scores used for ranking %s" % d["used"],
                                         "model": "documented penalties %s" % d["pens"],
                                         "note": "the emitted mask is still a minimal one on this input; no input with a non-minimal emitted mask was found"})


def run_C11(ctx):
    rng = ctx.rng
    cases = []
    n = 120 if ctx.quick else 3000
    for i in range(n):
        m = rng.choice([0, 1, 2, 2])
        e = rng.randrange(4)
        ln = rng.randrange(1, 90) if rng.random() < 0.8 else rng.randrange(90, 600)
        fv = None if rng.random() < 0.8 else rng.randrange(0, 12)
        cases.append(build_case(None, e, fv, None, payload(rng, m, ln, "ascii" if m == 2 else "random"), "sel"))
    cases.append(build_case(None, 1, None, None, b"ijn9yxotqetxvh:4idqb76h7b03m:r:e0pepds4eeh7hhd", "sel"))
    impl, _ = ctx.correspond("select", cases)
    # penalty oracle on the very candidates of the real loop
    check_selection(ctx, [c.replace("sel ", "cands ", 1) for c in cases], "cands")
    # bulk witness search on small symbols (implementation + documented-penalty oracle only; the model is not run): a
    # deviation of the ranking score that matters only when two candidates are nearly tied needs many selections to show
    bulk = []
    for i in range(2500 if ctx.quick else 60000):
        m = rng.choice([0, 1, 2, 2])
        bulk.append(build_case(None, rng.randrange(4), None, None, payload(rng, m, rng.randrange(1, 30), "ascii" if m == 2 else "random"), "cands"))
    bulk.append(build_case(None, 0, None, None, b"\x00" * 106, "cands"))
    check_selection(ctx, bulk)
    # forced mask overrides
    fc = []
    for i in range(24 if ctx.quick else 400):
        fc.append(build_case(None, rng.randrange(4), None, i % 8, payload(rng, 2, rng.randrange(1, 50), "ascii")))
    fi, _ = ctx.correspond("forced", fc)
    ctx.count_oracle("forced_mask", len(fc))
    for c, o in zip(fc, fi):
        b = parse_build_out(o)
        if b is None or b["k"] != int(c.split()[4]):
            ctx.direct_failure("forced_mask", {"case": c}, o[:40])
    symbol_oracles(ctx, fc, fi, ["format"])
    # scanners on raw lines / matrices
    lc = []
    for i in range(400 if ctx.quick else 20000):
        ln = rng.randrange(1, 60)
        typ = rng.choice([0, 0, 0, 1])
        bs = bytes((rng.randrange(2)) | ((0 if (typ == 0 or rng.random() < 0.8) else rng.randrange(1, 8)) << 1) for _ in range(ln))
        lc.append("line " + hexs(bs))
    for x in range(0, 1024, 1 if not ctx.quick else 3):
        lc.append("line " + hexs(bytes((x >> i) & 1 for i in range(10))))
    ctx.correspond("line", lc)
    sc = []
    for i in range(30 if ctx.quick else 600):
        sz = rng.choice([21, 25, 29, 33, 45])
        dens = rng.random()
        bs = bytes((1 if rng.random() < dens else 0) | ((0 if rng.random() < 0.85 else rng.randrange(1, 8)) << 1) for _ in range(sz * sz))
        sc.append("score %d %s" % (sz, hexs(bs)))
    # the dark-ratio term at every table index: for each percentage p the smallest dark count that reaches p and the count
    # just below it, with the last (bottom-right) / first cell forced dark or light -- a mis-counted module or a wrong table
    # entry shows as a different score on one of these
    for sz in ([21, 25] if ctx.quick else [21, 25, 33, 45]):     # 25 and 45: sides divisible by 5 reach exact multiples of 5 %
        tot = sz * sz
        for pc in range(0, 101):
            hi = (pc * tot + 99) // 100
            for darks in (hi - 1, hi):
                if darks < 1 or darks >= tot:
                    continue
                for last in (0, 1):
                    cells = [0] * tot
                    cells[-1] = last
                    cells[0] = rng.randrange(2)
                    need = darks - cells[-1] - cells[0]
                    if need < 0 or need > tot - 2:
                        continue
                    for j in rng.sample(range(1, tot - 1), need):
                        cells[j] = 1
                    sc.append("score %d %s" % (sz, hexs(bytes(cells))))
    simpl, _ = ctx.correspond("score", sc)
    tr = []
    for c, o in zip(sc, simpl):
        p = c.split()
        q = o.split()
        if len(q) == 6:
            # implementation: line col patt dark squares total ; spec parts: rows+cols runs, 40*windows, ratio
            tr.append(("openparts %s %s" % (p[1], p[2]), "%d %s %s" % (int(q[0]) + int(q[1]), q[2], q[3]), {"case": c}))
    ctx.oracle("penalty_parts", tr)
    limpl = ctx.run_impl("line", lc[:400])
    tr = []
    for c, o in zip(lc[:400], limpl):
        q = o.split()
        if len(q) == 2:
            tr.append(("openline %s" % c.split()[1], "%s %s" % (q[0], q[1]), {"case": c}))
    ctx.oracle("line_spec", tr)
    # the scanners deviate from the documented penalty on a raw line / a synthetic matrix: by the statement of C11 that is a broken
    # tie (the scorer is not the documented penalty any more), not yet a non-minimal emitted mask -- search for one
    moved = [f for f in ctx.oracle_failures if f.get("oracle") in ("penalty_parts", "line_spec")]
    if moved:
        ctx.oracle_failures[:] = [f for f in ctx.oracle_failures if f.get("oracle") not in ("penalty_parts", "line_spec")]
        if not getattr(ctx, "_selection_search_done", False):
            ctx._selection_search_done = True
            extra = []
            for i in range(20000):
                m = rng.choice([0, 1, 2, 2])
                extra.append(build_case(None, rng.randrange(4), None, None, payload(rng, m, rng.randrange(1, 40), "ascii" if m == 2 else "random"), "cands"))
            check_selection(ctx, extra, "search_scanners")
        for f in moved[:5]:
            if len(ctx.tie_failures) < 20:
                ctx.tie_failures.append({"stream": "scanner-vs-documented-penalty:" + f["oracle"], "case": (f.get("input") or {}).get("case", ""),
                                         "implementation": f.get("expected", ""), "model": f.get("got", "")})
    sp = [c.replace("build ", "cands ", 1) for c in special_builds(ctx, quick_big=True) if c.split()[4] == "-" and precondition_ok(c)]
    check_selection(ctx, sp, "cands_special")
    # every version: a payload filling the version and a tiny one (per-version constants of a scorer show here)
    cpv = caps(ctx)
    pv = []
    if cpv:
        for v in range(40):
            pv.append(build_case(None, 0, v, None, payload(rng, 2, max(1, cpv[2][0][v] - rng.randrange(0, 3))), "cands"))
            pv.append(build_case(None, 3, v, None, payload(rng, 2, 1 + v % 7, "ascii"), "cands"))
            if not ctx.quick:
                pv.append(build_case(None, 1, v, None, payload(rng, 0, cpv[0][1][v]), "cands"))
    check_selection(ctx, pv, "cands_versions")
    # a selection right after builds of the same symbol with a forced mask / another level, in one process
    seq = []
    for data, v in ((b"HELLO", 2), (b"selection after forced", 4), (payload(rng, 2, 20, "ascii"), None)):
        for k in (0, 5, 7, 2):
            seq.append(build_case(None, 1, v, k, data))
            seq.append(build_case(None, 1, v, None, data, "cands"))
        seq.append(build_case(None, 3, v, None, data))
        seq.append(build_case(None, 1, v, None, data, "cands"))
    check_selection(ctx, seq, "cands_after_forced", in_order=True)
    # "a forced mask always overrides the selection", also when the mask is set on a builder that has already built
    hc = []
    for data in (b"HELLO WORLD", b"12345", b"hello"):
        for k in range(8):
            hc.append("hist %s build mask=%d build" % (hexs(data), k))
        hc.append("hist %s mask=1 build mask=6 build build" % hexs(data))
        hc.append("hist %s build ecl=3 build mask=4 build version=6 build" % hexs(data))
    check_hist_cases(ctx, hc)


# ------------------------------------------------------------------------------------------ C16
def check_tostr_cases(ctx, cases, stream="to_str"):
    """`tostr` cases: correspondence and the independent reading of the terminal text back into the matrix"""
    impl, _ = ctx.correspond(stream, cases)
    # oracle: decode the text back (independent reading of the four characters)
    ctx.count_oracle("terminal_decode", len(cases))
    for c, o in zip(cases, impl):
        p = c.split()
        n = int(p[1])
        bits = [b & 1 for b in bytes.fromhex(p[2])]
        if not o.startswith("OK "):
            ctx.direct_failure("terminal_decode", {"case": c}, o[:60])
            continue
        cps = [int(x, 16) for x in o.split()[1].split(",")]
        text = "".join(chr(x) for x in cps)
        lines = text.split("\n")
        pairs = {" ": (1, 1), "█": (0, 0), "▀": (0, 1), "▄": (1, 0)}
        ok = len(lines) == (n + 1) // 2 + 1 and all(len(l) == n + 2 for l in lines) and all(ch in pairs for l in lines for ch in l)
        if ok:
            # half-rows: line i gives rows 2i-1 (top) and 2i (bottom) of the picture whose row -1.. is the border
            pic = {}
            for li, l in enumerate(lines):
                for x, ch in enumerate(l):
                    t, b = pairs[ch]
                    pic[(2 * li - 1, x)] = t
                    pic[(2 * li, x)] = b
            # picture coordinates: half-row h = matrix row h - 1 (h = 0 is the top border), column x = matrix col x - 1
            for r in range(-1, n + 1):
                for col in range(-1, n + 1):
                    want = bits[r * n + col] if (0 <= r < n and 0 <= col < n) else 0
                    if pic.get((r + 1, col + 1)) != want:
                        ok = False
                        break
                if not ok:
                    break
        if not ok:
            ctx.direct_failure("terminal_decode", {"case": c}, "text does not decode back to the matrix with a one-module light border")


def run_C16(ctx):
    rng = ctx.rng
    cases = []
    for v in range(40):
        n = 21 + 4 * v
        if ctx.quick and v % 3 and v not in (0, 39):
            continue
        bs = bytes(rng.randrange(2) | (rng.randrange(8) << 1) for _ in range(n * n))
        cases.append("tostr %d %s" % (n, hexs(bs)))
    for n in [21, 25]:
        cases.append("tostr %d %s" % (n, hexs(bytes(n * n))))
        cases.append("tostr %d %s" % (n, hexs(bytes([1]) * (n * n))))
    check_tostr_cases(ctx, cases)
    bc = gen_builds(ctx, 20 if ctx.quick else 300)
    ctx.correspond("build", bc)



# ------------------------------------------------------------------------------------------ C12 / C18 (svg stream)
def rgba_hex(rng, alpha=None):
    a = alpha if alpha is not None else rng.choice([255, 255, 255, 0, 128, rng.randrange(256)])
    if rng.random() < 0.5:
        # palette channels: extreme / repeated bytes, so that equal colours and special byte patterns do occur
        ch = lambda: rng.choice([0, 255, 255, 128])  # noqa
        return "%02x%02x%02x%02x" % (ch(), ch(), ch(), a if alpha is not None else rng.choice([255, 255, 0, 128]))
    return "%02x%02x%02x%02x" % (rng.randrange(256), rng.randrange(256), rng.randrange(256), a)


def image_string(rng):
    """an image reference composed from parts: scheme / media type / parameters / encoding marker / body, with
    XML-special characters possible in every part"""
    sp = ["&", "<", ">", '"', "'", "&amp;", "\t", "\n", "\r", " ", "]]>", "&#38;", "\u00e9", "%20", "\U0001F680", "{0}", "{1}", "{2}", "{3}", "{}", "{", "}"]
    def junk(k):
        return "".join(rng.choice(sp + list("abcXYZ019-_./=;,:+")) for _ in range(rng.randrange(k)))
    kind = rng.randrange(5)
    if kind == 0:
        return "data:image/%s%s;base64,%s" % (rng.choice(["png", "svg+xml", "jpeg"]),
                                              rng.choice(["", ";name=\"logo.png\"", ";charset=utf-8", ";x=" + junk(4)]),
                                              rng.choice(["iVBORw0KGgo=", "AAAA", junk(6)]))
    if kind == 1:
        return "data:%s,%s" % (rng.choice(["", "text/plain", "image/svg+xml;utf8", "image/png;base64" + junk(3)]), junk(12))
    if kind == 2:
        return rng.choice(["https://", "http://", "//", "file:///"]) + "x.y/" + junk(10) + rng.choice(["", "?a=1&b=2", "#f"])
    if kind == 3:
        return rng.choice(["./", "/", "..\\", "C:\\"]) + junk(10) + rng.choice([".png", ".svg", ""])
    return junk(16)


IMAGE_STRINGS = ["https://example.com/logo.png", "data:image/png;base64,iVBORw0KGgo=", "./assets/a b.svg",
                 "data:image/svg+xml;utf8,<svg xmlns=\"http://www.w3.org/2000/svg\"/>", "data:text/plain,a&b", "data:,'",
                 "https://x.y/?a=1&b=\"2\"<>", "it's <&> \"q\"", "&amp;", "https://x.y/logos/{0}.png", "{1}{2}{3}{}", "{{0}}.svg", "/tmp/\u00e9\u20ac\U0001F680.png", "a\tb\nc\rd", "]]>", "&#38;", ""]


def symbol_matrices(ctx, versions):
    """real symbols from the implementation: version -> (size, hexmatrix)"""
    cases = [build_case(None, 1, v, None, payload(ctx.rng, 2, 3 + v % 5, "ascii")) for v in versions]
    outs = ctx.run_impl("symbols", cases)
    res = {}
    for v, o in zip(versions, outs):
        b = parse_build_out(o)
        if b:
            res[v] = (b["n"], b["hex"])
    return res


def gen_svg_cases(ctx, count, versions, with_image=True):
    rng = ctx.rng
    mats = symbol_matrices(ctx, versions)
    cases = []
    dist = ctx.distribution.setdefault("svg", {"layers": {}, "image": 0, "special_image": 0, "alpha": 0, "versions": len(mats)})
    vs = sorted(mats)
    for i in range(count):
        v = vs[i % len(vs)]
        n, hx = mats[v]
        opts = []
        # colours of one case come from a small pool half of the time (equal colours on different elements), and the pool
        # may contain the defaults
        pool = [rgba_hex(rng) for _ in range(2)] + ["ffffffff", "000000ff"]
        reuse = rng.random() < 0.5
        col = (lambda: rng.choice(pool)) if reuse else (lambda: rgba_hex(rng))
        if rng.random() < 0.8:
            opts.append("margin=%d" % rng.choice([0, 1, 2, 4, 7, 16]))
        if rng.random() < 0.5:
            opts.append("bg=" + col())
        if rng.random() < 0.5:
            opts.append("fg=" + col())
        nl = rng.choice([0, 1, 1, 2, 3])
        for _ in range(nl):
            if rng.random() < 0.5:
                opts.append("shape=%d" % rng.randrange(6))
            else:
                opts.append("shapec=%d:%s" % (rng.randrange(6), col()))
        dist["layers"][str(nl)] = dist["layers"].get(str(nl), 0) + 1
        if with_image and rng.random() < 0.5:
            img = rng.choice(IMAGE_STRINGS) if rng.random() < 0.5 else image_string(rng)
            if img:
                opts.append("image=" + hexs(img))
                dist["image"] += 1
                if any(ch in img for ch in "&<>\"'"):
                    dist["special_image"] += 1
            if rng.random() < 0.5:
                opts.append("ishape=%d" % rng.randrange(3))
            if rng.random() < 0.4:
                opts.append("ibg=" + col())
            if rng.random() < 0.3:
                opts.append("isize=%s" % rng.choice(["5", "7.5", "9.25", "3", "11"]))
            if rng.random() < 0.3:
                opts.append("igap=%s" % rng.choice(["0", "1", "0.5", "2.25", "1.75"]))
            if rng.random() < 0.3:
                opts.append("ipos=%s,%s" % (rng.choice(["10", "12.5", "8.25"]), rng.choice(["10", "11.5", "14.75"])))
        # other constructor forms of Color (Vec<u8> / &[u8], 4 and 3 components) and arbitrary values in the QRCode's other
        # public fields (level, mask, mode, version): the document must depend on the modules and the builder options only
        if rng.random() < 0.3:
            ren = {"bg=": rng.choice(["bgv=", "bgv3="]), "fg=": rng.choice(["fgv=", "fgv3="]), "ibg=": "ibgv=", "shapec=": "shapecv="}
            opts = [next((ren[k] + o[len(k):] for k in ren if o.startswith(k) and rng.random() < 0.7), o) for o in opts]
        if rng.random() < 0.3:
            opts.append(rng.choice(["qecl=%d" % rng.randrange(4), "qmask=%d" % rng.randrange(8), "qmode=%d" % rng.randrange(3), "qver=%d" % rng.randrange(40)]))
        layers = [o for o in opts if o.startswith("shape")]
        others = [o for o in opts if not o.startswith("shape")]
        rng.shuffle(others)
        merged = []
        li = 0
        for o in others:
            while li < len(layers) and rng.random() < 0.5:
                merged.append(layers[li])
                li += 1
            merged.append(o)
        merged += layers[li:]
        cases.append("svg %d %s %s" % (n, hx, " ".join(merged)))
    return cases


def check_svg_cases(ctx, cases, stream="svg"):
    """correspondence + no-panic + purity + the XML-subset oracle (expected document) for `svg` stream cases"""
    impl, _ = ctx.correspond(stream, cases)
    no_panic(ctx, stream, cases, impl)
    # purity of rendering (second call equal, matrix unchanged) is the last field
    ctx.count_oracle("render_pure", len(impl))
    for c, o in zip(cases, impl):
        if o.startswith("OK ") and not o.endswith(" 1"):
            ctx.direct_failure("render_pure", {"case": c}, "second to_str differs or matrix modified")
    # spec oracle: the XML subset parser on the implementation's string equals the expected document
    tr = []
    for c, o in zip(cases, impl):
        p = c.split()
        q = o.split()
        if len(q) == 3 and q[0] == "OK":
            tr.append(("oxml %s %s %s %s" % (p[1], p[2], q[1], " ".join(p[3:])), lambda got: got == "1", {"case": c}))
    probe = run_exe(FQM, ["oxmlparse 3c612f3e"], "probe")
    if probe and probe[0].startswith("MODEL-UNSUPPORTED"):
        ctx.notes.append("spec XML oracle stream not available in this driver build; skipped")
    else:
        ctx.oracle("xml_expected_doc", tr)


def run_C12(ctx):
    versions = [0, 1, 2, 6, 13, 24, 39] if ctx.quick else list(range(40))
    cases = gen_svg_cases(ctx, 120 if ctx.quick else 2500, versions)
    # all six shapes on every sampled version, plain
    mats = symbol_matrices(ctx, versions)
    for v, (n, hx) in mats.items():
        for sh in range(6):
            cases.append("svg %d %s shape=%d margin=%d" % (n, hx, sh, v % 5))
    check_svg_cases(ctx, cases)


# ------------------------------------------------------------------------------------------ C13
def check_raster_cases(ctx, cases, stream="raster"):
    """`raster` cases: pixmap side (the largest square satisfying the LAST fit values), pixel classes at module centres (every
    pixel for squares at integer scale), PNG round trip"""
    impl, _ = ctx.correspond(stream, cases)
    no_panic(ctx, stream, cases, impl)
    ctx.count_oracle("pixel_classes", len(cases))
    for c, o in zip(cases, impl):
        q = o.split()
        if len(q) == 6 and q[0] == "OK":
            if q[1] != q[2]:
                ctx.direct_failure("square_pixmap", {"case": c}, "pixmap is %sx%s" % (q[1], q[2]))
            opts = dict(o.split("=", 1) for o in c.split()[3:])
            side = int(c.split()[1]) + 2 * int(opts.get("margin", 4))
            fw, fh = opts.get("fitw"), opts.get("fith")
            want = min(int(fw), int(fh)) if (fw and fh) else int(fw) if fw else int(fh) if fh else side
            if int(q[1]) != want:
                ctx.direct_failure("pixmap_side", {"case": c}, "pixmap side %s, the largest square satisfying the request is %d" % (q[1], want))
            if q[3] != "0" or q[4] != "0":
                ctx.direct_failure("pixel_classes", {"case": c}, "centre mismatches %s, full-cell mismatches %s" % (q[3], q[4]))
            if q[5] != "1":
                ctx.direct_failure("png_roundtrip", {"case": c}, "PNG bytes do not decode to the pixmap")


def run_C13(ctx):
    rng = ctx.rng
    versions = [0, 1, 4, 9] if ctx.quick else [0, 1, 2, 4, 6, 9, 14, 19, 24, 29, 39]
    mats = symbol_matrices(ctx, versions)
    cases = []
    colours = [("000000ff", "ffffffff"), ("102030ff", "f0e0d0ff"), ("000000ff", "ffffff00"), ("ff0000ff", "00ff00ff"), ("0000ffff", "ffffff80")]
    # channel values from a small palette (00 / ff / 80 / one random value): extreme and repeated bytes, opaque backgrounds
    # with a zero channel, inverted codes
    def pal():
        return "%02x" % rng.choice([0, 255, 128, rng.randrange(256)])
    for _ in range(40):
        fg_ = pal() + pal() + pal() + "ff"
        bg_ = pal() + pal() + pal() + rng.choice(["ff", "ff", "00", "80"])
        # clearly different colours only (the pixel oracle has a tolerance of 1 per channel)
        if max(abs(int(fg_[i:i + 2], 16) - int(bg_[i:i + 2], 16)) for i in (0, 2, 4)) >= 32:
            colours.append((fg_, bg_))
    colours += [("ffffffff", "000000ff"), ("ffff00ff", "ff0000ff"), ("00ff00ff", "ffff00ff")]
    # colours given as CSS strings (Color: From<&str> / From<String>), with the rgba they denote
    css = [("red", "ff0000ff"), ("white", "ffffffff"), ("black", "000000ff"), ("blue", "0000ffff"), ("yellow", "ffff00ff"),
           ("#f00", "ff0000ff"), ("rgb(0,128,0)", "008000ff"), ("#00FF00", "00ff00ff"), ("#102030", "102030ff"), ("#0000ff80", "0000ff80")]
    ci = 0
    for v, (n, hx) in sorted(mats.items()):
        for sh in range(6):
            margin = rng.choice([0, 1, 2, 4])
            fg, bg = rng.choice(colours)
            if sh in (0, 3):
                # string colours on these layers (the option replaces fg= / bg=)
                f1, f2 = css[ci % len(css)], css[(ci + 3) % len(css)]
                ci += 1
                if f1[1][:6] != f2[1][:6]:
                    side = n + 2 * margin
                    cases.append("raster %d %s shape=%d margin=%d fgs=%s:%s bgs=%s:%s fitw=%d" % (n, hx, sh, margin, hexs(f1[0].encode()), f1[1], hexs(f2[0].encode()), f2[1], side * 4))
            side = n + 2 * margin
            # original scale (1 px per module): exact for squares
            if sh == 0:
                cases.append("raster %d %s shape=0 margin=%d fg=%s bg=%s" % (n, hx, margin, fg, bg))
            # >= 4 px per module: centre sampling; integer scales for squares
            k = rng.choice([4, 5, 8]) if (ctx.quick or v > 10) else rng.choice([4, 5, 6, 8, 10])
            cases.append("raster %d %s shape=%d margin=%d fg=%s bg=%s fitw=%d" % (n, hx, sh, margin, fg, bg, side * k))
            if not ctx.quick or sh % 2 == 0:
                cases.append("raster %d %s shape=%d margin=%d fg=%s bg=%s fith=%d" % (n, hx, sh, margin, fg, bg, side * 4 + rng.randrange(0, side)))
            if not ctx.quick or sh in (1, 4):
                a_, b_ = (side * 6, side * 4) if sh % 2 else (side * 4, side * 5)
                cases.append("raster %d %s shape=%d margin=%d fitw=%d fith=%d" % (n, hx, sh, margin, a_, b_))
    if ctx.quick:
        cases = cases[:110]
    # the other constructor forms of Color (Vec<u8>, &[u8] with 4 and with 3 components), incl. translucent / transparent
    if mats:
        n, hx = mats[min(mats)]
        for fgc, bgc in [("000000ff", "ffffff00"), ("0000ffff", "ffffff80"), ("102030ff", "f0e0d0ff")]:
            cases.append("raster %d %s shape=0 margin=2 fgv=%s bgv=%s fitw=%d" % (n, hx, fgc, bgc, (n + 4) * 4))
            cases.append("raster %d %s shape=1 margin=2 fgv=%s bgv3=%s fitw=%d" % (n, hx, fgc, bgc, (n + 4) * 4))
        # equal width and height requests, a request equal to the document side, both larger / smaller than each other
        side = n + 8
        for w_, h_ in [(side * 5, side * 5), (side * 4, side * 4), (side, side), (side * 4, side * 4 + 1), (side * 4 + 1, side * 4)]:
            cases.append("raster %d %s shape=0 margin=4 fitw=%d fith=%d" % (n, hx, w_, h_))
    # translucent colours with arbitrary alpha (alpha is exact wherever nothing is blended: light cells, dark cells over a fully
    # transparent background)
    if mats:
        n, hx = mats[min(mats)]
        for al in ([1, 37, 100, 200, 254] if ctx.quick else [1, 2, 37, 77, 100, 129, 150, 200, 253, 254]):
            cases.append("raster %d %s shape=0 margin=1 fg=000000ff bg=ffffff%02x" % (n, hx, al))
            cases.append("raster %d %s shape=0 margin=1 fg=1020c0%02x bg=00000000 fitw=%d" % (n, hx, al, (n + 2) * 4))
            cases.append("raster %d %s shape=1 margin=0 fg=000000ff bg=%02x%02x%02x%02x fitw=%d" % (n, hx, rng.randrange(96, 256), rng.randrange(256), rng.randrange(256), rng.randrange(64, 255), n * 5))   # clearly not black
    # image-related setters without / with an image must not touch the background or the modules
    if mats:
        n, hx = mats[min(mats)]
        cases.append("raster %d %s shape=0 margin=2 bg=ffffffff ibg=ff0000ff fitw=%d" % (n, hx, (n + 4) * 4))
        cases.append("raster %d %s shape=0 margin=2 ibg=00ff00ff bg=ffffffff ishape=1 isize=3 igap=1 fitw=%d" % (n, hx, (n + 4) * 4))
        cases.append("raster %d %s shape=1 margin=1 fg=000000ff bg=ffff00ff ibg=0000ffff fitw=%d" % (n, hx, (n + 2) * 5))
    # a large request (beyond 4096 pixels), and other values in the QRCode's level / mask fields
    if mats:
        n, hx = mats[min(mats)]
        cases.append("raster %d %s shape=0 margin=4 fitw=%d" % (n, hx, (n + 8) * 142))
        if not ctx.quick:
            cases.append("raster %d %s shape=1 margin=0 fith=%d" % (n, hx, n * 256))
        cases.append("raster %d %s shape=0 margin=1 qecl=3 qmask=2 fitw=%d" % (n, hx, (n + 2) * 4))
    # histories of fit_width / fit_height calls (last value of each wins; the pixmap is the largest square within both)
    if mats:
        n, hx = mats[min(mats)]
        side = n + 8
        import itertools
        pats = [p for k in (2, 3, 4) for p in itertools.product("wh", repeat=k)]
        if ctx.quick:
            pats = [p for p in pats if len(p) < 4] + rng.sample([p for p in pats if len(p) == 4], 4)
        for pat in pats:
            for _ in range(1 if ctx.quick else 3):
                vals = [side * rng.choice([4, 5, 6, 7, 8]) + rng.choice([0, 0, 3]) for _ in pat]
                cases.append("raster %d %s shape=0 margin=4 " % (n, hx) + " ".join("fit%s=%d" % (a, b) for a, b in zip(pat, vals)))
    check_raster_cases(ctx, cases)


# ------------------------------------------------------------------------------------------ C14
def check_hist_cases(ctx, cases, stream="builder_histories"):
    """`hist` cases: correspondence with the model's builder, no panic, and every build on the reused builder equal to a
    build on a fresh builder carrying the same final options"""
    impl, _ = ctx.correspond(stream, cases)
    no_panic(ctx, stream, cases, impl)
    ctx.count_oracle("shared_vs_fresh_builder", len(cases))
    for c, o in zip(cases, impl):
        if o.startswith("OK") and any(tok.startswith("0:") for tok in o.split()[1:]):
            ctx.direct_failure("shared_vs_fresh_builder", {"case": c}, "a build on a reused builder differs from a fresh builder with the same final options: " + o[:80])


def run_C14(ctx):
    rng = ctx.rng
    cases = []
    for i in range(60 if ctx.quick else 1500):
        m = rng.randrange(3)
        data = payload(rng, m, rng.randrange(0, 60), "ascii" if m == 2 else "random")
        ops = []
        for _ in range(rng.randrange(1, 9)):
            r = rng.random()
            if r < 0.3:
                ops.append("build")
            elif r < 0.45:
                ops.append("mode=%d" % rng.choice([m, 2, 2, rng.randrange(3)]) if m != 2 else "mode=%d" % rng.choice([2, 2, 1, 0]))
            elif r < 0.65:
                ops.append("ecl=%d" % rng.randrange(4))
            elif r < 0.85:
                ops.append("version=%d" % rng.choice([0, 1, 2, 5, 9, 20, 39]))
            else:
                ops.append("mask=%d" % rng.randrange(8))
        ops.append("build")
        # forced modes must accept the payload (otherwise the documented precondition is violated)
        ok = True
        fm = None
        for op in ops:
            if op.startswith("mode="):
                fm = int(op[5:])     # a setter call alone is harmless; the precondition concerns the mode in force at build()
            elif op == "build":
                if fm == 0 and not all(c in DIGITS for c in data):
                    ok = False
                if fm == 1 and not all(c in ALNUM for c in data):
                    ok = False
        if ok:
            cases.append("hist %s %s" % (hexs(data), " ".join(ops)))
    # every ordered pair of mode setters on payloads each mode can hold, then build (the earlier call must leave no trace)
    for data in (b"hello world", b"HELLO WORLD", b"12345", b"a1B2", b"Zz"):
        for m1 in range(3):
            for m2 in range(3):
                okm = (m2 == 2) or (m2 == 1 and all(c in ALNUM for c in data)) or (m2 == 0 and all(c in DIGITS for c in data))
                if okm:
                    cases.append("hist %s mode=%d mode=%d build" % (hexs(data), m1, m2))
                    cases.append("hist %s mode=%d ecl=1 mode=%d version=5 build" % (hexs(data), m1, m2))
    check_hist_cases(ctx, cases)
    # order independence: the same build cases in one process, in two different orders, must give the same outputs
    oc = []
    for i in range(60 if ctx.quick else 600):
        m = rng.randrange(3)
        oc.append(build_case(None, rng.randrange(4), None, None, payload(rng, m, rng.choice([1, 2, 3, 5, 8, 13, 20]), "ascii" if m == 2 else "random"), "sel"))
    oc += [build_case(None, 3, None, None, b"abc", "sel")] * 3
    a1 = run_exe(FQH, oc, "h_order_a", shards=1)
    rev = list(reversed(oc))
    a2 = list(reversed(run_exe(FQH, rev, "h_order_b", shards=1)))
    ctx.count_oracle("order_independence", len(oc))
    for c, x, y in zip(oc, a1, a2):
        if x != y:
            ctx.direct_failure("order_independence", {"case": c, "note": "same process, different preceding builds"}, "outputs differ: %s vs %s" % (x[:60], y[:60]))
    # renderer option order (everything except the shape layers is last-value-wins, so order must not matter)
    so = gen_svg_cases(ctx, 40 if ctx.quick else 300, [1, 6], with_image=True)
    # every unordered pair of last-value-wins setters, in both orders (an image is present, so the image options matter)
    pm = symbol_matrices(ctx, [1])
    if pm:
        n_, hx_ = pm[1]
        pool = ["margin=7", "bg=102030ff", "fg=0000ffff", "ishape=1", "ibg=ff000080", "isize=5.5", "igap=1.25", "ipos=10.5,12"]
        import itertools
        for a_, b_ in itertools.combinations(pool, 2):
            so.append("svg %d %s image=%s %s %s" % (n_, hx_, hexs("i.png"), a_, b_))
        for a_ in pool:
            so.append("svg %d %s %s image=%s" % (n_, hx_, a_, hexs("i.png")))
    so2 = []
    for c in so:
        p = c.split()
        layers = [o for o in p[3:] if o.startswith("shape")]
        others = [o for o in p[3:] if not o.startswith("shape")]
        so2.append(" ".join(p[:3] + list(reversed(others)) + layers))
    r1 = ctx.run_impl("svg_order_a", so)
    r2 = ctx.run_impl("svg_order_b", so2)
    ctx.count_oracle("setter_order_irrelevant", len(so))
    for c, c2, x, y in zip(so, so2, r1, r2):
        if x != y:
            ctx.direct_failure("setter_order_irrelevant", {"case": c, "reordered": c2}, "SVG output depends on the order of last-value-wins setters")
    # repeated setters: "K=v1 O=o K=v2" must render exactly like "O=o K=v2" (the earlier value of K leaves no trace, whatever
    # other setter was called in between)
    if pm:
        n_, hx_ = pm[1]
        two = {"margin": ("7", "2"), "bg": ("102030ff", "ffffffff"), "fg": ("0000ffff", "000000ff"), "ishape": ("1", "2"), "ibg": ("ff000080", "00ff00ff"),
               "isize": ("5.5", "9"), "igap": ("1.25", "0.5"), "ipos": ("10.5,12", "8,8.25")}
        ra, rb = [], []
        for k_, (v1, v2) in two.items():
            for o_, (w1, _) in two.items():
                if o_ != k_:
                    ra.append("svg %d %s image=%s %s=%s %s=%s %s=%s" % (n_, hx_, hexs("i.png"), k_, v1, o_, w1, k_, v2))
                    rb.append("svg %d %s image=%s %s=%s %s=%s" % (n_, hx_, hexs("i.png"), o_, w1, k_, v2))
        xa = ctx.run_impl("svg_repeat_a", ra)
        xb = ctx.run_impl("svg_repeat_b", rb)
        ctx.count_oracle("last_value_wins", len(ra))
        for c1, c2, x, y in zip(ra, rb, xa, xb):
            if x != y:
                ctx.direct_failure("last_value_wins", {"case": c1, "without_the_earlier_call": c2}, "an overwritten setter value still influences the SVG output")
    th = ["threads %d %d %d" % (nt, 3 if ctx.quick else 12, ctx.seed * 31 + nt) for nt in ([1, 2, 4, 8, 16] if ctx.quick else range(1, 17))]
    impl, _ = ctx.correspond("threads", th)
    ctx.count_oracle("threads_equal_sequential", len(th))
    for c, o in zip(th, impl):
        q = o.split()
        if len(q) != 3 or q[2] != "0":
            ctx.direct_failure("threads_equal_sequential", {"case": c}, o[:60])
    # raster renderer: histories of fit_width / fit_height calls -- the pixmap side depends on the LAST value of each only
    fm = symbol_matrices(ctx, [0])
    if fm:
        n, hx = fm[0]
        side = n + 8
        import itertools
        fcases, want = [], []
        pats = [p_ for k in (1, 2, 3, 4) for p_ in itertools.product("wh", repeat=k)]
        for pat in pats:
            for _ in range(1 if ctx.quick else 4):
                vals = [side * rng.choice([4, 5, 6, 7]) + rng.choice([0, 0, 5]) for _ in pat]   # >= 4 px per module
                last = {}
                for a, b in zip(pat, vals):
                    last[a] = b
                fcases.append("raster %d %s shape=0 margin=4 " % (n, hx) + " ".join("fit%s=%d" % (a, b) for a, b in zip(pat, vals)))
                want.append(min(last.values()))
        fi, _ = ctx.correspond("raster", fcases)
        ctx.count_oracle("fit_last_value_wins", len(fcases))
        for c, o, w in zip(fcases, fi, want):
            q = o.split()
            if len(q) < 3 or q[0] != "OK" or int(q[1]) != w or int(q[2]) != w:
                ctx.direct_failure("fit_last_value_wins", {"case": c}, "pixmap %s, the final fit values ask for a square of side %d" % (o[:40], w))
    # rendering does not modify the QR code and is repeatable: last field of the svg stream
    sc = gen_svg_cases(ctx, 20 if ctx.quick else 300, [0, 3, 10], with_image=False)
    si, _ = ctx.correspond("svg", sc)
    ctx.count_oracle("render_pure", len(sc))
    for c, o in zip(sc, si):
        if o.startswith("OK ") and not o.endswith(" 1"):
            ctx.direct_failure("render_pure", {"case": c}, "second to_str differs or matrix modified")
    if ctx.purity:
        ctx.direct_failure("purity_scan", {"case": "lexical scan of /repo/src"}, "hidden-state candidates: %s" % ctx.purity[:5])


# ------------------------------------------------------------------------------------------ C17
HEXD = "0123456789abcdefABCDEF"


def rand_colour_string(rng):
    r = rng.random()
    if r < 0.35:
        n = rng.choice([6, 8])
        return ("#" if rng.random() < 0.6 else "") + "".join(rng.choice(HEXD) for _ in range(n))
    if r < 0.5:
        return ("#" if rng.random() < 0.5 else "") + "".join(rng.choice(HEXD) for _ in range(rng.randrange(0, 11)))
    if r < 0.7:
        return rng.choice(["", "#", "zz", "\u00e9", "\u20aca", "#12345", "+1+2+3", "-1-2-3", "#ggggggff", "red", "##aabbcc", "#aabbcc#", "aabbccdde",
                           "\U0001F680\U0001F680", "ab\u00e9cd", "#a\u00e90000", "a\u00e90000", "#00000\u20ac", "#0\U0001F6800", "+f+f+f+f", "0x0x0x", " aabbcc", "#AABBCCDD", "\u00e9\u00e9\u00e9"])
    return "".join(rng.choice("0123456789abcdef#+-gG \u00e9z") for _ in range(rng.randrange(0, 10)))


def check_wasm_cases(ctx, cases, stream="wasm"):
    """`wasmqr` / `wasm` stream cases: correspondence, no panic, qr() = native module values, qr_svg = native SvgBuilder output
    for well-formed settings (empty string when the content cannot be encoded)"""
    impl, _ = ctx.correspond(stream, cases)
    no_panic(ctx, stream, cases, impl)
    # oracle 1: qr() = row-major 0/1 values of a native build with default options (or empty)
    qcs = [(c, o) for c, o in zip(cases, impl) if c.split()[0] == "wasmqr"]
    nat = [build_case(None, None, None, None, bytes.fromhex(c.split()[1]) if len(c.split()) > 1 and c.split()[1] != "-" else b"") for c, _ in qcs]
    nout = ctx.run_impl("native", nat)
    ctx.count_oracle("wasm_qr_equals_native", len(nat))
    for (c, wq), nb in zip(qcs, nout):
        b = parse_build_out(nb)
        want = "OK " + ("-" if b is None else "".join("%02x" % (int(b["hex"][2 * i:2 * i + 2], 16) & 1) for i in range(b["n"] * b["n"])))
        if wq != want:
            ctx.direct_failure("wasm_qr_equals_native", {"case": c}, "qr() differs from the native build's module values")
    # oracle 2: qr_svg = native SvgBuilder output for well-formed settings (re-expressed through the svg stream)
    tr = []
    for c, o in zip(cases, impl):
        p = c.split()
        if p[0] != "wasm":
            continue
        well = True
        opts = {"shape": "0", "margin": "4"}
        order = []
        for op in p[2:]:
            k, v = op.split("=", 1)
            if k in ("modcol", "bg", "ibg"):
                s_ = bytes.fromhex(v).decode("utf-8") if v != "-" else ""
                body = s_[1:] if s_.startswith("#") else s_
                if len(body) in (6, 8) and all(ch in HEXD for ch in body):
                    opts[k] = (body + ("ff" if len(body) == 6 else "")).lower()
                elif all(ord(ch) < 128 for ch in body) and (len(body) < 6 or len(body) > 9):
                    pass              # fewer than 3 or more than 4 byte pairs: "a malformed color ... every setter ignores" (documented)
                elif all(ord(ch) < 128 for ch in body) and "+" not in body and any(ch not in HEXD for ch in body[:2 * (len(body) // 2)]):
                    pass              # a complete pair that is not two hex digits (e.g. a second '#'): the parse fails, the value is ignored
                else:
                    well = False      # unclear whether the parser accepts it: only no-panic is required
            elif k == "ipos":
                # a position array whose length is not 2 is ignored by the setter (documented): the earlier value stays
                if v != "-" and len(v.split(",")) == 2:
                    opts[k] = v
            else:
                opts[k] = v
        if not well:
            continue
        ver = int(opts["version"]) if "version" in opts else None
        ecl = int(opts["ecl"]) if "ecl" in opts else None
        tr.append((c, o, opts, ver, ecl))
    bcases = [build_case(None, t[4], t[3], None, bytes.fromhex(t[0].split()[1]) if t[0].split()[1] != "-" else b"") for t in tr]
    bouts = ctx.run_impl("native_build", bcases)
    scases = []
    keep = []
    for t, bo in zip(tr, bouts):
        b = parse_build_out(bo)
        c, o, opts, ver, ecl = t
        if b is None:
            ctx.count_oracle("wasm_svg_equals_native", 1)
            if o != "OK -":
                ctx.direct_failure("wasm_svg_equals_native", {"case": c}, "content cannot be encoded but qr_svg did not return the empty string")
            continue
        so = ["shape=" + opts["shape"], "margin=" + opts["margin"]]
        if "bg" in opts:
            so.append("bg=" + opts["bg"])
        if "modcol" in opts:
            so.append("fg=" + opts["modcol"])
        if "image" in opts and opts["image"] != "-":
            so.append("image=" + opts["image"])
        if "ibg" in opts:
            so.append("ibg=" + opts["ibg"])
        if "ishape" in opts:
            so.append("ishape=" + opts["ishape"])
        if "isize" in opts:
            a_, g_ = opts["isize"].split(",")
            so += ["isize=" + a_, "igap=" + g_]
        if "ipos" in opts:
            so.append("ipos=" + opts["ipos"])
        scases.append("svg %d %s %s" % (b["n"], b["hex"], " ".join(so)))
        keep.append((c, o))
    souts = ctx.run_impl("native_svg", scases)
    ctx.count_oracle("wasm_svg_equals_native", len(scases))
    for (c, o), so in zip(keep, souts):
        q = so.split()
        if len(q) == 3 and q[0] == "OK":
            if o != "OK " + q[1]:
                ctx.direct_failure("wasm_svg_equals_native", {"case": c}, "qr_svg output differs from the native SvgBuilder output for the same settings")
        else:
            ctx.direct_failure("wasm_svg_equals_native", {"case": c}, "native builder: " + so[:40])


def run_C17(ctx):
    rng = ctx.rng
    cases = []
    contents = ["x", "HELLO WORLD", "12345", "https://example.com/", "", "\u00e9\u20ac", "a" * 200, "A" * 5000,
                "7" * 2954, "7" * 3993, "7" * 3994, "A" * 2420, "A" * 2421, "b" * 1663, "b" * 1664]
    for c in contents:
        cases.append("wasmqr " + hexs(c))
    for i in range(200 if ctx.quick else 5000):
        content = rng.choice(contents[:7]) if rng.random() < 0.9 else "9" * rng.choice([2954, 3500, 3993, 3994, 7100])
        ops = []
        for _ in range(rng.randrange(0, 8)):
            k = rng.randrange(11)
            if k == 0:
                ops.append("shape=%d" % rng.randrange(6))
            elif k == 1:
                ops.append("modcol=" + hexs(rand_colour_string(rng)))
            elif k == 2:
                ops.append("margin=%d" % rng.choice([0, 1, 4, 10]))
            elif k == 3:
                ops.append("bg=" + hexs(rand_colour_string(rng)))
            elif k == 4:
                ops.append("image=" + hexs(rng.choice(IMAGE_STRINGS)))
            elif k == 5:
                ops.append("ibg=" + hexs(rand_colour_string(rng)))
            elif k == 6:
                ops.append("ishape=%d" % rng.randrange(3))
            elif k == 7:
                ops.append("isize=%s,%s" % (rng.choice(["5", "7.5", "3"]), rng.choice(["0", "1", "0.5"])))
            elif k == 8:
                ln = rng.choice([0, 1, 2, 2, 2, 3, 4])
                ops.append("ipos=" + (",".join(rng.choice(["10", "12.5", "8.25", "0", "0"]) for _ in range(ln)) if ln else "-"))
            elif k == 9:
                ops.append("ecl=%d" % rng.randrange(4))
            else:
                ops.append("version=%d" % rng.choice([0, 1, 5, 12, 39]))
        cases.append("wasm %s %s" % (hexs(content), " ".join(ops)))
    for content, e in [("7" * 7089, 0), ("7" * 7090, 0), ("A" * 4296, 0), ("A" * 3000, 0), ("7" * 5000, 1), ("b" * 2953, 0), ("b" * 2954, 0)]:
        cases.append("wasm %s ecl=%d" % (hexs(content), e))
        cases.append("wasm %s ecl=%d margin=2 shape=1" % (hexs(content), e))
    # every single-setter history with malformed values
    for col in ["", "#", "zz", "\u00e9", "\u20aca", "#12345", "+1+2+3", "#gg0000", "#aabbcc", "#aabbccdd", "aabbccdde", "\U0001F680",
                "#a\u00e90000", "#00000\u20ac", "a\u00e9", "#\u00e9\u00e9\u00e9"]:
        for key in ["modcol", "bg", "ibg"]:
            cases.append("wasm 78 %s=%s" % (key, hexs(col)))
            cases.append("wasm 78 image=%s %s=%s" % (hexs("i.png"), key, hexs(col)))
    for pos in ["-", "1", "1,2", "1,2,3", "1,2,3,4"]:
        cases.append("wasm 78 ipos=%s" % pos)
        cases.append("wasm 78 image=%s ipos=%s" % (hexs("i.png"), pos))
        cases.append("wasm 78 image=%s isize=5,1 ipos=%s" % (hexs("i.png"), pos))
    for pos in ["0,0", "0,5", "7.5,0"]:
        cases.append("wasm 78 image=%s ipos=%s" % (hexs("i.png"), pos))
        cases.append("wasm 78 image=%s ipos=5,6 ipos=%s" % (hexs("i.png"), pos))
        cases.append("wasm 78 image=%s isize=0,0 ipos=%s" % (hexs("i.png"), pos))
    cases.append("wasm 78 isize=5,1")
    cases.append("wasm 78 image=%s isize=5,1" % hexs("i.png"))
    check_wasm_cases(ctx, cases)


# ------------------------------------------------------------------------------------------ C18
def check_image_cases(ctx, cases, stream="svg_image"):
    """`svg` stream cases with an embedded image: correspondence, no panic, and the frame / image geometry read back from the
    attributes of the implementation's document"""
    import re as _re
    impl, _ = ctx.correspond(stream, cases)
    no_panic(ctx, stream, cases, impl)
    ctx.count_oracle("frame_geometry", len(cases))
    prev_side = {}
    for c, o in zip(cases, impl):
        # version index, size, margin and the overrides are read from the case line itself
        cp_ = c.split()
        n = int(cp_[1])
        v = (n - 21) // 4
        od = dict(x.split("=", 1) for x in cp_[3:])
        margin = int(od.get("margin", 4))
        size = float(od["isize"]) if "isize" in od else None
        gap = float(od["igap"]) if "igap" in od else None
        pos = tuple(float(t) for t in od["ipos"].split(",")) if "ipos" in od else None
        if "image" not in od:
            continue
        q = o.split()
        if len(q) != 3 or q[0] != "OK":
            ctx.direct_failure("frame_geometry", {"case": c}, o[:40])
            continue
        text = bytes.fromhex(q[1]).decode("utf-8")
        rects = _re.findall(r'<rect x="([-0-9.]+)" y="([-0-9.]+)" width="([-0-9.]+)" height="([-0-9.]+)"', text)
        imgs = _re.findall(r'<image x="([-0-9.]+)" y="([-0-9.]+)" width="([-0-9.]+)" height="([-0-9.]+)"', text)
        if len(rects) != 1 or len(imgs) != 1:
            ctx.direct_failure("frame_geometry", {"case": c}, "expected one frame rect and one image element")
            continue
        fx, fy, fw, fh = map(float, rects[0])
        ix, iy, iw, ih = map(float, imgs[0])
        S = n + 2 * margin
        bad = []
        tol = 0.006
        if abs(fw - fh) > 1e-9 or abs(iw - ih) > 1e-9:
            bad.append("not square")
        if abs((ix + iw / 2) - (fx + fw / 2)) > tol or abs((iy + ih / 2) - (fy + fh / 2)) > tol:
            bad.append("image not centred in frame")
        if size is None and gap is None and pos is None:
            if fx != int(fx) or fw != int(fw):
                bad.append("frame not module aligned")
            if abs((fx + fw / 2) - S / 2) > 1e-9 or abs((fy + fh / 2) - S / 2) > 1e-9:
                bad.append("frame not centred on the symbol")
            if not (5 * fw < 2 * n):
                bad.append("frame >= 40% of the symbol")
            if not (fx >= margin + 8 and fx + fw <= margin + n - 8):
                bad.append("frame touches finder/separator area")
            if iw > fw + 1e-9:
                bad.append("image larger than frame")
            key = "any"
            if key in prev_side and prev_side[key][0] <= v and prev_side[key][1] > fw:
                bad.append("frame side shrinks as the version grows (%s at version index %d, %s here)" % (prev_side[key][1], prev_side[key][0], fw))
            if key not in prev_side or prev_side[key][0] <= v:
                prev_side[key] = (v, max(fw, prev_side.get(key, (0, 0))[1]) if False else fw)
        else:
            if size is not None and abs(iw - size) > tol:
                bad.append("image size not honoured")
            if gap is not None:
                want = iw + 2 * gap
                if not (abs(fw - want) < tol or abs(fw - (want - 1)) < tol):
                    bad.append("gap not honoured: frame %s image %s gap %s" % (fw, iw, gap))
            if pos is not None:
                if abs((fx + fw / 2) - pos[0]) > tol or abs((fy + fh / 2) - pos[1]) > tol:
                    bad.append("frame not centred on the requested position")
            elif abs((fx + fw / 2) - S / 2) > tol or abs((fy + fh / 2) - S / 2) > tol:
                bad.append("frame not centred on the symbol")
        if bad:
            ctx.direct_failure("frame_geometry", {"case": c}, "; ".join(bad))


def run_C18(ctx):
    import re as _re
    rng = ctx.rng
    versions = list(range(40))
    mats = symbol_matrices(ctx, versions)
    cases = []
    meta = []
    for v, (n, hx) in sorted(mats.items()):
        for ish in (range(3) if not ctx.quick else [v % 3]):
            for margin in (range(0, 17) if not ctx.quick else [[0, 4, 16, 3][v % 4]]):
                cases.append("svg %d %s margin=%d image=%s ishape=%d" % (n, hx, margin, hexs("i.png"), ish))
        # the default frame must not depend on the level / mask / mode recorded in the QRCode
        for qo in (["qecl=%d" % (v % 4), "qecl=3"] if ctx.quick else ["qecl=0", "qecl=1", "qecl=2", "qecl=3", "qmask=%d" % (v % 8), "qmode=%d" % (v % 3)]):
            cases.append("svg %d %s margin=2 image=%s ishape=%d %s" % (n, hx, hexs("i.png"), v % 3, qo))
    for _ in range(120 if ctx.quick else 3000):
        v = rng.choice(sorted(mats))
        n, hx = mats[v]
        margin = rng.choice([0, 2, 4, 1, 7])
        # overrides are multiples of 0.25 (exact in f64, so the fixed-point model is exact) over a wide range: tiny, ordinary,
        # as large as the symbol and beyond it; positions anywhere on (and slightly off) the canvas
        def q4(lo, hi):
            return rng.randrange(int(lo * 4), int(hi * 4) + 1) / 4.0
        r = rng.random()
        size = None if r < 0.2 else q4(0.25, 12) if r < 0.6 else q4(12, n) if r < 0.8 else q4(n, 2 * n + 8)
        r = rng.random()
        gap = None if r < 0.25 else q4(0, 3) if r < 0.7 else q4(3, n / 2.0)
        r = rng.random()
        pos = None if r < 0.4 else (q4(0, n + 2 * margin), q4(0, n + 2 * margin)) if r < 0.9 else (q4(n, 2 * n), q4(0, 5))
        o = "svg %d %s margin=%d image=%s ishape=%d" % (n, hx, margin, hexs("i.png"), rng.randrange(3))
        if size is not None:
            o += " isize=%s" % size
        if gap is not None:
            o += " igap=%s" % gap
        if pos is not None:
            o += " ipos=%s,%s" % pos
        cases.append(o)
        if rng.random() < 0.5:
            # the same settings given in the opposite order
            p_ = o.split()
            cases.append(" ".join(p_[:3] + list(reversed(p_[3:]))))
    check_image_cases(ctx, cases)


# ------------------------------------------------------------------------------------------ C19
def run_C19(ctx):
    wd = os.path.join(WORK, "files")
    import shutil
    shutil.rmtree(wd, ignore_errors=True)      # outputs of earlier runs
    os.makedirs(wd, exist_ok=True)
    classes = ["ok", "overwrite", "samelen", "bare", "missingdir", "isdir", "devfull", "procfs", "longname", "nul",
               "empty", "root", "dot", "dotdot", "trailslash", "relmissing", "trailspace", "leadspace", "trailnl", "otherext", "noext"]
    cases = ["file %s %s %s %s" % (k, cl, wd, sz) for k in ("svg", "png") for cl in classes for sz in ("small", "large")]
    cases += ["file svg fsize %s %s" % (wd, sz) for sz in ("small", "large")]   # both SVG documents exceed the 1 KiB limit
    cases += ["file svg %s %s nonascii" % (cl, wd) for cl in ("ok", "overwrite", "samelen", "bare")]   # a document with non-ASCII text
    if not ctx.quick:
        cases = cases * 5
    impl, _ = ctx.correspond("file", cases)
    no_panic(ctx, "file", cases, impl)
    ctx.count_oracle("all_or_error", len(cases))
    for c, o in zip(cases, impl):
        cl = c.split()[2]
        if cl in ("ok", "overwrite", "samelen", "bare", "trailspace", "leadspace", "trailnl", "otherext", "noext"):
            if o != "RET_OK same=1":
                ctx.direct_failure("all_or_error", {"case": c}, "write to a writable path: " + o)
        else:
            if o.startswith("RET_OK"):
                ctx.direct_failure("all_or_error", {"case": c}, "returned Ok although the file cannot hold the rendering: " + o)

# ------------------------------------------------------------------------------------------ fuzz-candidate handlers
def fuzz_builds(which=(), outcome=False, nopanic=False, codewords=False, selection=False, tostr=False, modeo=False, limit=150):
    """decide the `build` candidates of the differential search with this property's oracles"""
    def f(ctx, cands):
        cases = [c for c in cands.get("build", []) if precondition_ok(c)][:limit]
        if not cases:
            return
        impl, _ = ctx.correspond("fuzz-build", cases)
        if nopanic:
            no_panic(ctx, "fuzz-build", cases, impl)
        if outcome:
            outcome_oracle(ctx, "fuzz-outcome", cases, impl)
        if which:
            symbol_oracles(ctx, cases, impl, list(which))
        if codewords:
            check_data_codewords(ctx, cases, "fuzz-build")
        if selection:
            check_selection(ctx, [c.replace("build ", "cands ", 1) for c in cases if c.split()[4] == "-"], "fuzz-cands")
        if modeo:
            tr = [("omode " + c.split()[5], (lambda got, o=o: not o.startswith("OK ") or o.split()[4] == got), {"case": c})
                  for c, o in zip(cases, impl) if c.split()[1] == "-" and c.split()[5] != "-"]
            ctx.oracle("fuzz-iso_mode", tr)
        if tostr:
            ts = []
            for c, o in zip(cases, impl):
                b = parse_build_out(o)
                if b:
                    ts.append("tostr %d %s" % (b["n"], b["hex"]))
            check_tostr_cases(ctx, ts[:60], "fuzz-to_str")
    return f


def precondition_ok(c):
    """a forced mode must be able to represent the payload (documented precondition of QRBuilder::mode)"""
    p = c.split()
    if len(p) != 6:
        return False
    data = bytes.fromhex(p[5]) if p[5] != "-" else b""
    if p[1] == "0":
        return all(ch in DIGITS for ch in data)
    if p[1] == "1":
        return all(ch in ALNUM for ch in data)
    return True


def xml_chars_only(case):
    """image strings are URLs / data URIs / paths (C12's quantifier): no character that XML forbids outright"""
    for o in case.split()[3:]:
        if o.startswith("image="):
            try:
                t = bytes.fromhex(o[6:]).decode("utf-8")
            except (ValueError, UnicodeDecodeError):
                return False
            if any((ord(ch) < 32 and ch not in "\t\n\r") or ch in "\ufffe\uffff" for ch in t):
                return False
    return True


def fuzz_svg(ctx, cands):
    cases = [c for c in cands.get("svg", []) if xml_chars_only(c)][:150]
    if cases:
        check_svg_cases(ctx, cases, "fuzz-svg")


def fuzz_image(ctx, cands):
    cases = [c for c in cands.get("svg", []) if " image=" in c][:150]
    if cases:
        check_image_cases(ctx, cases, "fuzz-svg_image")


def raster_in_domain(c):
    """C13's pixel statement needs distinguishable colours: opaque modules whose colour differs clearly from the background"""
    fg, bg = [0, 0, 0, 255], [255, 255, 255, 255]
    for o in c.split()[3:]:
        k, v = o.split("=", 1)
        if k in ("fg", "fgv"):
            fg = list(bytes.fromhex(v))
        elif k == "fgv3":
            fg = list(bytes.fromhex(v))[:3] + [255]
        elif k == "fgs":
            fg = list(bytes.fromhex(v.split(":")[1]))
        elif k in ("bg", "bgv"):
            bg = list(bytes.fromhex(v))
        elif k == "bgv3":
            bg = list(bytes.fromhex(v))[:3] + [255]
        elif k == "bgs":
            bg = list(bytes.fromhex(v.split(":")[1]))
    if fg[3] != 255:
        return False
    pb = [x * bg[3] // 255 for x in bg[:3]]
    return max(abs(a - b) for a, b in zip(fg[:3], pb)) > 24 or bg[3] < 200


def fuzz_raster(ctx, cands):
    cases = [c for c in cands.get("raster", []) if raster_in_domain(c)][:80]
    if cases:
        check_raster_cases(ctx, cases, "fuzz-raster")


def fuzz_hist(ctx, cands):
    cases = cands.get("hist", [])[:150]
    if cases:
        check_hist_cases(ctx, cases, "fuzz-hist")


def fuzz_hist_and_raster(ctx, cands):
    fuzz_hist(ctx, cands)
    fuzz_raster(ctx, cands)


def fuzz_builds_and_hist(which):
    fb = fuzz_builds(which)

    def f(ctx, cands):
        fb(ctx, cands)
        fuzz_hist(ctx, cands)
    return f


def fuzz_selection_and_hist(ctx, cands):
    fuzz_builds(selection=True)(ctx, cands)
    fuzz_hist(ctx, cands)


def fuzz_wasm(ctx, cands):
    cases = cands.get("wasm", [])[:150]
    if cases:
        check_wasm_cases(ctx, cases, "fuzz-wasm")


REGISTRY = {
    "C01": {"run": run_C01, "fuzz": fuzz_builds(["decode"]), "corpus": corpus_builds(["decode"]), "tables": ["all"],
            "rule": "builds over (mode, level, version) cells at capacity / lower threshold / random lengths, forced and automatic options; non-trivial = distinct case line"},
    "C02": {"run": run_C02, "fuzz": fuzz_builds(["rs"]), "corpus": corpus_builds(["rs"]), "tables": ["ecc_groups", "data_codewords", "polynomial", "log", "antilog", "max_bytes", "missing_bits"],
            "rule": "builds at capacity for every (version, level) + random; structure() on all 160 layouts with position-tagged and random bytes"},
    "C03": {"run": run_C03, "fuzz": fuzz_builds(["fixed"]), "corpus": corpus_builds(["fixed"]), "tables": ["alignment", "version_size", "version_information"],
            "rule": "all 40 blank symbols + builds; every cell compared with the ISO region map"},
    "C04": {"run": run_C04, "fuzz": fuzz_builds_and_hist(["format", "fields"]), "corpus": corpus_builds(["format", "fields"]), "tables": ["format_info", "version_information"],
            "rule": "all (level, mask) x versions forced + random builds"},
    "C05": {"run": run_C05, "fuzz": fuzz_builds(["decode"], outcome=True), "corpus": corpus_builds(["decode"]), "tables": ["version_get", "data_codewords", "cci"],
            "rule": "Version::get on every length 0..=7200 x 12 (+ huge lengths); builds at hi / hi+1 of every cell with forced versions"},
    "C06": {"run": run_C06, "fuzz": fuzz_builds(codewords=True), "tables": ["cci", "data_codewords", "alnum"],
            "rule": "encode() at boundary lengths of every cell; push_bits sequences; data codewords read back from real symbols"},
    "C07": {"run": run_C07, "fuzz": fuzz_builds(["rs"]), "tables": ["log", "antilog", "polynomial", "ecc_groups"],
            "rule": "division() on single-nonzero-byte basis, zeros, random blocks for every generator and block length in use"},
    "C08": {"run": run_C08, "fuzz": fuzz_builds(["decode", "format_forced"]), "tables": [],
            "rule": "all 320 (version, mask) on zero / one / random data fills; pairs of forced masks through the API"},
    "C09": {"run": run_C09, "fuzz": fuzz_builds(["decode"], modeo=True), "tables": ["alnum"],
            "rule": "all strings of <= 2 bytes (quick: stride 5 on pairs), all class patterns up to length 8 (quick: 6), random long strings"},
    "C10": {"run": run_C10, "fuzz": fuzz_builds(nopanic=True, outcome=True), "corpus": corpus_builds([]), "tables": ["all"],
            "rule": "debug build (overflow checks + debug assertions): builds at boundary lengths, all-zero / 0xFF / pad look-alike payloads, lengths up to 8000; negative controls must panic"},
    "C11": {"run": run_C11, "fuzz": fuzz_selection_and_hist, "tables": ["percent_score"],
            "rule": "selection traces through the hook recorder; documented penalty of every candidate; raw line / matrix scanners"},
    "C12": {"run": run_C12, "fuzz": fuzz_svg, "tables": [],
            "rule": "SvgBuilder::to_str on real symbols: margins, 0..3 shape layers over the 6 shapes with and without colours, alpha, images incl. XML-special and non-ASCII strings, background shapes, overrides (multiples of 0.25)"},
    "C13": {"run": run_C13, "fuzz": fuzz_raster, "tables": [],
            "rule": "to_pixmap on real symbols: 6 shapes x margins x colour pairs (incl. transparent background) at 1 px/module (squares, every pixel) and >= 4 px/module (centre sampling) through fit width / height / both; PNG decoded with the png crate"},
    "C14": {"run": run_C14, "fuzz": fuzz_hist_and_raster, "tables": [],
            "rule": "random setter/build histories on one builder compared with the model and with a fresh builder; 1..16 threads building different inputs vs the sequential results; render twice"},
    "C17": {"run": run_C17, "fuzz": fuzz_wasm, "tables": [],
            "rule": "wasm option histories: every setter with well-formed and malformed values (colour strings of any content/length incl. non-ASCII, position arrays of length 0..4, size without position and vice versa), random histories; qr() on several contents"},
    "C18": {"run": run_C18, "fuzz": fuzz_image, "tables": [],
            "rule": "default image frames for versions x 3 background shapes x margins 0..16 (quick: a spread) + sampled overrides; geometry read back from the attributes of the implementation's SVG"},
    "C19": {"run": run_C19, "tables": [],
            "rule": "to_file of SVG and PNG under 15 path classes: writable fresh / existing longer file / bare file name, missing directory (absolute and relative), path is a directory (work dir, /, ., ..), trailing slash, empty path, /dev/full (write-time ENOSPC), /proc (create-time), over-long name, NUL in path, file-size limit after a partial write"},
    "C15": {"run": run_C15, "fuzz": fuzz_builds(["labels"]), "corpus": corpus_builds(["labels"]), "tables": ["alignment", "version_size"],
            "rule": "all 40 blank symbols + builds; every label compared with the ISO region map"},
    "C16": {"run": run_C16, "fuzz": fuzz_builds(tostr=True), "tables": [],
            "rule": "terminal text of random module matrices at all sizes; decoded back by an independent reader"},
}
