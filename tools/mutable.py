#!/usr/bin/env python3
"""Markdown table of the seeded changes and what the checks say about them (from seeded/*/check_result.json and the replay files).
The first-contact result of a round (before any strengthening) is kept in meta.json["first_contact"] when recorded."""
import json, os, re, sys
V = os.path.dirname(os.path.dirname(os.path.abspath(__file__)))
rows = []
for d in sorted(os.listdir(os.path.join(V, "seeded"))):
    sd = os.path.join(V, "seeded", d)
    if not os.path.isdir(sd):
        continue
    pid = d.split("_")[0]
    notes = open(os.path.join(sd, "notes.md")).read() if os.path.exists(os.path.join(sd, "notes.md")) else ""
    title = re.sub(r"^#+\s*", "", [x for x in notes.split("\n") if x.strip()][0])[:110] if notes.strip() else ""
    files = sorted(set(re.findall(r"^\+\+\+ b/(\S+)", open(os.path.join(sd, "patch.diff")).read(), flags=re.M)))
    cr = json.load(open(os.path.join(sd, "check_result.json"))) if os.path.exists(os.path.join(sd, "check_result.json")) else {}
    r = cr.get(pid, {})
    viol = r.get("violation") or ""
    verdict = "NOT DETECTED" if r.get("exit") == 0 else "no-failing-input-found" if viol.endswith("no-failing-input-found") else "failing input found" if viol else "?"
    orc = ""
    m = re.search(r"replay=(\S+)", viol)
    if m and os.path.exists(m.group(1)):
        try:
            rp = json.load(open(m.group(1)))
            f = rp.get("failure") or {}
            orc = f.get("oracle") or (rp.get("unchecked") or [""])[0][:60]
        except ValueError:
            pass
    meta = json.load(open(os.path.join(sd, "meta.json"))) if os.path.exists(os.path.join(sd, "meta.json")) else {}
    fc = meta.get("first_contact", "")
    rows.append("| %s | %s | %s | %s | %s | %s | %s |" % (d, ", ".join(files), title.replace("|", "/"), verdict, orc, fc, r.get("wall_s", "")))
print("| seeded change | files | what it does | verdict of `bin/vcheck <ID> quick` | oracle / stream that found the input | first contact | s |")
print("|---|---|---|---|---|---|---|")
print("\n".join(rows))
