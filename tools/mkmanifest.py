#!/usr/bin/env python3
"""writes MANIFEST.json from the registry below (kept in one place so it stays valid)"""
import json, os
V = os.path.dirname(os.path.dirname(os.path.abspath(__file__)))
HOOK_COMMITS = ["203d279"]
CHECKS = {}
NA = {}
def chk(pid, text, note, technique, ref):
    CHECKS[pid] = {
        "property_id": pid,
        "quick_cmd": "bin/vcheck %s quick" % pid,
        "thorough_cmd": "bin/vcheck %s thorough" % pid,
        "evidence_file": "/verif/evidence/%s.json" % pid,
        "replay_cmd_template": "bin/vcheck %s quick --replay {path}" % pid,
        "engine": "coq-model+correspondence",
        "level_claimed": {"category": "proof", "text": text, "design_ref": ref},
        "level_note": note,
        "technique": technique,
    }
exec(open(os.path.join(V, "tools", "manifest_entries.py")).read())
allp = [json.loads(l)["id"] for l in open(os.path.join(V, "properties.jsonl"))]
m = {
    "version": 1,
    "setup_cmd": "bin/setup",
    "hooks": {
        "guard": "cargo feature verif-hooks",
        "enable": "harness/Cargo.toml depends on fast_qr = { path = \"/repo\", features = [\"svg\", \"image\", \"verif-hooks\"] }",
        "baseline_off_cmd": "cd /repo && cargo nextest run --workspace --no-fail-fast --offline || cargo test --workspace --no-fail-fast --offline --lib",
        "source_commits": HOOK_COMMITS,
        "add_only": True,
    },
    "engines": [
        {"name": "coq-model+correspondence", "path": "/verif/coq", "serves_properties": sorted(CHECKS),
         "kind_free_text": "Coq 8.16 development (Spec/ ISO 18004, Generated/ tables regenerated from /repo by tools/rs2v.py on every run, Model/ executable Gallina mirror, Proofs/, Properties/); tie = translator + extensional dump cross-check + correspondence of the extracted model (driver/fqm) with the real crate (harness/fqh) + spec oracles run on the implementation's outputs"},
        {"name": "fuzz-witness-search", "path": "/verif/fuzz", "serves_properties": ["C01", "C02", "C03", "C04", "C05", "C06", "C07", "C08", "C09", "C10", "C11", "C12", "C13", "C14", "C15", "C16", "C17", "C18"],
         "kind_free_text": "auxiliary: libFuzzer differential search between /repo and the pinned reference copy refimpl/ for inputs on which they differ; candidates are decided by the spec oracles of the engine above; skipped when the tree equals the reference; never a verdict, replaces no theorem"},
    ],
    "checks": [CHECKS[p] for p in allp if p in CHECKS],
    "not_applicable": [{"property_id": p, "reason": NA.get(p, "check not built yet in this round (model and theorems in progress); see DESIGN.md section 3")} for p in allp if p not in CHECKS],
    "notes": "bin/vcheck <ID> quick|thorough [--replay file]; VERIF_SEED seeds the single PRNG; evidence is rewritten on every run. Fixed defects are listed in known_findings.txt. When /repo/src differs from the pinned reference copy (refimpl/), a coverage-guided differential fuzz search (fuzz/, cargo-fuzz on the nightly toolchain, 12 s quick / 120 s thorough, FQ_FUZZ_SECONDS overrides, 0 disables) proposes additional candidate inputs; every candidate is decided by the property's spec oracles, the search itself never produces a verdict (DESIGN.md 2.8).",
}
json.dump(m, open(os.path.join(V, "MANIFEST.json"), "w"), indent=1)
print("MANIFEST: %d checks, %d not_applicable" % (len(m["checks"]), len(m["not_applicable"])))
