#!/usr/bin/env python3
"""writes MANIFEST.json from the registry below (kept in one place so it stays valid)"""
import json, os
V = os.path.dirname(os.path.dirname(os.path.abspath(__file__)))
HOOK_COMMITS = ["203d279"]
CHECKS = {}
NA = {}
def chk(pid, text, note, technique, ref):
    CHECKS[pid] = {
        "property_id": pid,
        "quick_cmd": "bin/vcheck %s quick" % pid,
        "thorough_cmd": "bin/vcheck %s thorough" % pid,
        "evidence_file": "/verif/evidence/%s.json" % pid,
        "replay_cmd_template": "bin/vcheck %s quick --replay {path}" % pid,
        "engine": "coq-model+correspondence",
        "level_claimed": {"category": "proof", "text": text, "design_ref": ref},
        "level_note": note,
        "technique": technique,
    }
exec(open(os.path.join(V, "tools", "manifest_entries.py")).read())
allp = [json.loads(l)["id"] for l in open(os.path.join(V, "properties.jsonl"))]
m = {
    "version": 1,
    "setup_cmd": "bin/setup",
    "hooks": {
        "guard": "cargo feature verif-hooks",
        "enable": "harness/Cargo.toml depends on fast_qr = { path = \"/repo\", features = [\"svg\", \"image\", \"verif-hooks\"] }",
        "baseline_off_cmd": "cd /repo && cargo nextest run --workspace --no-fail-fast --offline || cargo test --workspace --no-fail-fast --offline --lib",
        "source_commits": HOOK_COMMITS,
        "add_only": True,
    },
    "engines": [
        {"name": "coq-model+correspondence", "path": "/verif/coq", "serves_properties": sorted(CHECKS),
         "kind_free_text": "Coq 8.16 development (Spec/ ISO 18004, Generated/ tables regenerated from /repo by tools/rs2v.py on every run, Model/ executable Gallina mirror, Proofs/, Properties/); tie = translator + extensional dump cross-check + correspondence of the extracted model (driver/fqm) with the real crate (harness/fqh) + spec oracles run on the implementation's outputs"},
    ],
    "checks": [CHECKS[p] for p in allp if p in CHECKS],
    "not_applicable": [{"property_id": p, "reason": NA.get(p, "check not built yet in this round (model and theorems in progress); see DESIGN.md section 3")} for p in allp if p not in CHECKS],
    "notes": "bin/vcheck <ID> quick|thorough [--replay file]; VERIF_SEED seeds the single PRNG; evidence is rewritten on every run. Fixed defects are listed in known_findings.txt.",
}
json.dump(m, open(os.path.join(V, "MANIFEST.json"), "w"), indent=1)
print("MANIFEST: %d checks, %d not_applicable" % (len(m["checks"]), len(m["not_applicable"])))
