#!/usr/bin/env python3
"""Run every quick check against a behaviour-preserving refactor: apply <dir>/patch.diff to /repo, run all checks, undo.
A refactor must not produce a failing input; `no-failing-input-found` (tie broken by a harmless rewrite) is recorded."""
import json, os, subprocess, sys, time
V = os.path.dirname(os.path.dirname(os.path.abspath(__file__)))
d = os.path.abspath(sys.argv[1])
ids = sys.argv[2:] or ["C%02d" % i for i in range(1, 20)]
st = subprocess.run(["git", "-C", "/repo", "status", "--porcelain"], stdout=subprocess.PIPE, text=True).stdout.strip()
if st:
    print("refusing: /repo dirty"); sys.exit(2)
if subprocess.run(["git", "-C", "/repo", "apply", os.path.join(d, "patch.diff")]).returncode != 0:
    print("patch does not apply"); sys.exit(2)
saved = {p: open(os.path.join(V, "evidence", p + ".json")).read() for p in ids if os.path.exists(os.path.join(V, "evidence", p + ".json"))}
res = {}
try:
    for pid in ids:
        t0 = time.time()
        p = subprocess.run([os.path.join(V, "bin", "vcheck"), pid, "quick"], stdout=subprocess.PIPE, stderr=subprocess.STDOUT, text=True)
        viol = [l for l in p.stdout.split("\n") if l.startswith("VIOLATION")]
        res[pid] = {"exit": p.returncode, "violation": viol[-1] if viol else None, "wall_s": round(time.time() - t0, 1)}
        print(pid, p.returncode, (viol[-1] if viol else "-")[:120], flush=True)
finally:
    for p_, txt in saved.items():
        open(os.path.join(V, "evidence", p_ + ".json"), "w").write(txt)
    subprocess.run(["git", "-C", "/repo", "checkout", "--", "."])
old = {}
try:
    old = json.load(open(os.path.join(d, "check_result.json")))
except (OSError, ValueError):
    pass
old.update(res)       # a run over a subset of the checks refreshes those entries only
json.dump(old, open(os.path.join(d, "check_result.json"), "w"), indent=1)
