#!/usr/bin/env python3
"""Confirm a seeded change independently in a scratch worktree of /repo:
   patched: builds, the 174 lib tests pass, the demo FAILS;  clean: the demo PASSES.
   usage: confirm_seed.py <ID> <k> <run-features or ->     (reads /tmp/mut_out/<ID>/<k>/, writes /verif/seeded/<ID>_<k>/)"""
import json, os, re, shutil, subprocess, sys, time
pid, k, feats = sys.argv[1], sys.argv[2], sys.argv[3]
src = "/tmp/mut_out/%s/%s" % (pid, k)
wt = "/tmp/confirm_wt_%s_%s" % (pid, k)
def sh(cmd, cwd=None, timeout=1800):
    p = subprocess.run(cmd, shell=True, cwd=cwd, stdout=subprocess.PIPE, stderr=subprocess.STDOUT, text=True, timeout=timeout,
                       env=dict(os.environ, CARGO_NET_OFFLINE="true"))
    return p.returncode, p.stdout
subprocess.run("git -C /repo worktree remove --force %s 2>/dev/null; rm -rf %s" % (wt, wt), shell=True)
rc, out = sh("git -C /repo worktree add -q --detach %s HEAD" % wt)
assert rc == 0, out
res = {"property": pid, "k": int(k)}
try:
    fflag = "" if feats == "-" else "--features " + feats
    os.makedirs(wt + "/examples", exist_ok=True)
    shutil.copy(src + "/demo.rs", wt + "/examples/demo.rs")
    # clean tree: demo passes
    rc, out = sh("cargo run --offline %s --example demo 2>&1 | tail -5" % fflag, cwd=wt)
    rc2, _ = sh("cargo run --offline %s --example demo >/dev/null 2>&1" % fflag, cwd=wt)
    res["clean_demo_exit"] = rc2
    res["clean_demo_tail"] = out[-300:]
    # patched tree
    rc, out = sh("git apply %s/patch.diff" % src, cwd=wt)
    res["applies"] = rc == 0
    rc, out = sh("cargo build --offline 2>&1 | tail -2", cwd=wt)
    rcb, _ = sh("cargo build --offline >/dev/null 2>&1", cwd=wt)
    res["patched_builds"] = rcb == 0
    rc, out = sh("cargo test --offline --lib 2>&1 | grep 'test result'", cwd=wt)
    res["patched_tests"] = out.strip()
    rc2, out2 = sh("cargo run --offline %s --example demo 2>&1 | tail -4" % fflag, cwd=wt)
    rc3, _ = sh("cargo run --offline %s --example demo >/dev/null 2>&1" % fflag, cwd=wt)
    res["patched_demo_exit"] = rc3
    res["patched_demo_tail"] = out2[-400:]
    res["confirmed"] = bool(res["applies"] and res["patched_builds"] and "174 passed; 0 failed" in res["patched_tests"]
                            and res["clean_demo_exit"] == 0 and res["patched_demo_exit"] != 0)
finally:
    subprocess.run("git -C /repo worktree remove --force %s; rm -rf %s" % (wt, wt), shell=True)
dst = "/verif/seeded/%s_%s" % (pid, k)
if res.get("confirmed"):
    os.makedirs(dst, exist_ok=True)
    shutil.copy(src + "/patch.diff", dst + "/patch.diff")
    shutil.copy(src + "/demo.rs", dst + "/demo.rs")
    if os.path.exists(src + "/notes.md"):
        shutil.copy(src + "/notes.md", dst + "/notes.md")
    notes = open(src + "/notes.md").read() if os.path.exists(src + "/notes.md") else ""
    meta = {"property": pid, "breaks": "see notes.md", "needs_to_manifest": "see notes.md (section on what is needed for the failure to manifest)",
            "demo_run": "cargo run --offline %s --example demo (demo.rs copied to examples/demo.rs)" % fflag,
            "confirmed_by_me": {"scratch_worktree": "git worktree of /repo at HEAD, removed afterwards",
                                "clean_demo_exit": res["clean_demo_exit"], "patched_demo_exit": res["patched_demo_exit"],
                                "patched_lib_tests": res["patched_tests"], "patched_demo_tail": res["patched_demo_tail"][-200:]},
            "origin": "independent sub-agent given only the property text and a scratch worktree"}
    json.dump(meta, open(dst + "/meta.json", "w"), indent=1)
print(json.dumps(res)[:600])
