#!/usr/bin/env python3
"""vcheck: decide one property of fast_qr on /repo's current working tree.

  check.py <ID> [quick|thorough] [--replay file]

exit 0: property held on everything explored (KNOWN-FINDING lines for listed findings)
exit 1: `VIOLATION property=<ID> replay=<path>` (ending in no-failing-input-found when only a proof obligation
        or the model/implementation correspondence broke and no failing input was found)
exit 2: infrastructure failure (repo does not compile, tools missing)
"""
import json
import os
import sys
import time

sys.path.insert(0, os.path.dirname(os.path.abspath(__file__)))
from fqlib import *  # noqa
import props  # noqa

TRUSTED_BASE = [
    "Coq 8.16.1 kernel incl. its bytecode VM (vm_compute); no native_compute",
    "Spec/*.v: transcription of ISO/IEC 18004 (region map, read order, Tables 3/5/9/10, BCH generators, GF(256) 0x11D)",
    "tools/rs2v.py translator (cross-checked against an extensional dump of the same items executed through rustc)",
    "hand-written Gallina model of the algorithmic code, tied by the correspondence check (differential, exhaustive over the configuration domain where payload-independent)",
    "extraction with ExtrOcamlBasic directives only, OCaml 4.13.1, driver/main.ml + render.ml glue, vm_compute self-check of sampled cases",
    "rustc/cargo, harness fqh (catch_unwind), cargo feature verif-hooks (add-only re-exports and recorder)",
]


class Ctx:
    def __init__(self, pid, tier, seed):
        self.pid, self.tier, self.seed = pid, tier, seed
        self.rng = Rng(seed * 1000003 + int(pid[1:]))
        self.quick = tier == "quick"
        self.streams = {}          # name -> dict(cases=, disagreements=, panics=)
        self.oracles = {}          # name -> dict(cases=, failures=)
        self.oracle_failures = []  # concrete failing inputs on the real code: dicts
        self.tie_failures = []     # model/implementation disagreements: dicts
        self.obligation_failures = []
        self.samples = []
        self.distinct = set()
        self.evaluations = 0
        self.notes = []
        self.parsed = {}
        self.distribution = {}

    # --- model vs implementation
    def correspond(self, name, cases, nontrivial=None, keep=3, normalize=None):
        if not cases:
            return [], []
        impl = run_exe(FQH, cases, "h_" + name)
        model = run_exe(FQM, cases, "m_" + name)
        dis = 0
        for c, a, b in zip(cases, impl, model):
            self.evaluations += 1
            a2, b2 = (normalize(a), normalize(b)) if normalize else (a, b)
            if a2 != b2:
                dis += 1
                if len(self.tie_failures) < 20:
                    self.tie_failures.append({"stream": name, "case": c, "implementation": a[:2000], "model": b[:2000]})
            if nontrivial is None or nontrivial(c, a):
                self.distinct.add(hash(c))
        st = self.streams.setdefault(name, {"cases": 0, "disagreements": 0})
        st["cases"] += len(cases)
        st["disagreements"] += dis
        for c, a in list(zip(cases, impl))[:keep]:
            if len(self.samples) < 12:
                self.samples.append({"stream": name, "case": c[:300], "implementation": a[:200]})
        return impl, model

    # --- implementation only (for oracles that need its outputs)
    def run_impl(self, name, cases):
        out = run_exe(FQH, cases, "h_" + name)
        self.evaluations += len(cases)
        return out

    # --- spec oracle on implementation outputs: pairs (oracle_case, expected_output, description-of-input)
    def oracle(self, name, triples):
        triples = [t for t in triples if t is not None]
        if not triples:
            return []
        outs = run_exe(FQM, [t[0] for t in triples], "o_" + name)
        fails = 0
        for (oc, exp, desc), got in zip(triples, outs):
            self.evaluations += 1
            ok = exp(got) if callable(exp) else (got == exp)
            if not ok:
                fails += 1
                if len(self.oracle_failures) < 20:
                    self.oracle_failures.append({"oracle": name, "input": desc, "oracle_case": oc[:3000],
                                                 "expected": "<predicate>" if callable(exp) else exp[:1000], "got": got[:1000]})
        o = self.oracles.setdefault(name, {"cases": 0, "failures": 0})
        o["cases"] += len(triples)
        o["failures"] += fails
        return outs

    def direct_failure(self, name, desc, detail):
        """an oracle evaluated in the harness or the orchestrator itself found a failing input"""
        o = self.oracles.setdefault(name, {"cases": 0, "failures": 0})
        o["failures"] += 1
        if len(self.oracle_failures) < 20:
            self.oracle_failures.append({"oracle": name, "input": desc, "detail": detail})

    def count_oracle(self, name, n):
        o = self.oracles.setdefault(name, {"cases": 0, "failures": 0})
        o["cases"] += n
        self.evaluations += n


def main():
    args = [a for a in sys.argv[1:] if not a.startswith("--")]
    pid = args[0]
    tier = args[1] if len(args) > 1 else os.environ.get("VERIF_TIER", "quick")
    seed = int(os.environ.get("VERIF_SEED", "0"))
    replay = None
    if "--replay" in sys.argv:
        replay = sys.argv[sys.argv.index("--replay") + 1]
    if pid not in props.REGISTRY:
        print("unknown property", pid)
        return 2
    spec = props.REGISTRY[pid]
    t0 = time.time()
    with Lock():
        ctx = Ctx(pid, tier, seed)
        # 1 translate (tie #1)
        tr_ok, tr_errs, parsed = translate()
        ctx.parsed = parsed.get("tables", {})
        ctx.strings = parsed.get("strings", {})
        ctx.purity = parsed.get("purity", [])
        for e in tr_errs:
            log(e)
        # 2 harness
        ok, out, dt = build_harness()
        if not ok:
            log("harness build failed:\n" + out[-3000:])
            return 2
        log("harness built in %.1fs" % dt)
        # dump cross-check
        dump_ok, dump_msgs = props.dump_crosscheck(ctx, spec.get("tables", []))
        for m in dump_msgs:
            log(m)
        # 3 Coq obligations
        obligations = 0
        discharged = 0
        assumptions = {}
        target = "Properties/%s.vo" % pid
        audit = audit_sources()
        coq_ok, coq_out, dt = coq_make(target)
        log("coq %s: %s in %.1fs" % (target, "ok" if coq_ok else "FAILED", dt))
        propfile = os.path.join(COQ, "Properties", pid + ".v")
        thms = re.findall(r"^(?:Theorem|Lemma|Corollary|Example)\s+(\w+)", open(propfile).read(), flags=re.M)
        obligations = len(thms) + spec.get("finite_checks", 0)
        if coq_ok:
            pa_ok, assumptions, raw = print_assumptions("Properties/%s.v" % pid)
            allowed = set(spec.get("allowed_axioms", []))
            bad_ax = {k: v for k, v in assumptions.items() if set(v) - allowed}
            if not pa_ok or bad_ax:
                ctx.obligation_failures.append({"kind": "assumptions", "detail": bad_ax or raw[-2000:]})
            else:
                discharged = obligations
        else:
            m = re.search(r'File "\./([^"]+)", line (\d+)', coq_out)
            ctx.obligation_failures.append({"kind": "coq", "file": m.group(1) if m else "?", "line": int(m.group(2)) if m else 0,
                                            "detail": coq_out[-2500:]})
        if audit:
            ctx.obligation_failures.append({"kind": "audit", "detail": audit})
        # thorough tier: re-check the compiled closure of the property file with the independent checker
        coqchk = None
        if coq_ok and tier == "thorough" and os.environ.get("FQ_NO_COQCHK") != "1":
            cache_fn = os.path.join(WORK, "coqchk_cache.json")
            cache = json.load(open(cache_fn)) if os.path.exists(cache_fn) else {}
            key = gen_hash() + ":" + pid
            if key in cache:
                coqchk = dict(cache[key], cached=True)
            else:
                # the independent checker re-runs every vm_compute proof of the closure with its own (slow) machinery; closures
                # that include the 320-plan mask check need more than an hour, so the run is bounded and a timeout is recorded,
                # not treated as a failure (tools/coqchk_all.sh runs the whole development unbounded)
                limit = int(os.environ.get("FQ_COQCHK_TIMEOUT", "1500"))
                rc, cout, cdt = sh("coqchk -silent -o -Q . FQ FQ.Properties.%s" % pid, cwd=COQ, timeout=limit)
                m = re.search(r"\* Axioms:(.*?)\n\s*\n\* ", cout, flags=re.S)
                ax = [a.strip() for a in (m.group(1).strip().split("\n") if m else ["<unparsed>"]) if a.strip()]
                ax = [] if ax == ["<none>"] else ax
                coqchk = {"exit": rc, "axioms": ax, "wall_s": round(cdt, 1), "timed_out": rc == 124}
                if rc == 0:
                    cache[key] = coqchk
                    json.dump(cache, open(cache_fn, "w"), indent=1)
            log("coqchk FQ.Properties.%s: %s" % (pid, coqchk))
            if not coqchk.get("timed_out") and (coqchk["exit"] != 0 or set(coqchk["axioms"]) - set(spec.get("allowed_axioms", []))):
                ctx.obligation_failures.append({"kind": "coqchk", "detail": str(coqchk)})
        # 4 driver
        drv_ok, drv_out, dt = build_driver()
        if not drv_ok:
            log("driver build failed:\n" + drv_out[-3000:])
            ctx.obligation_failures.append({"kind": "model-build", "detail": drv_out[-2500:]})
        else:
            log("driver ready (%.1fs)" % dt)
            # 5 streams + oracles
            if replay:
                props.replay(ctx, spec, json.load(open(replay)))
            else:
                props.run_corpus(ctx, spec)
                spec["run"](ctx)
                # 5b witness search: inputs on which the current tree and the pinned reference copy differ (coverage-guided
                # differential fuzzing) are decided by this property's spec oracles; nothing happens on an unchanged tree
                if "fuzz" in spec:
                    try:
                        import fuzzsearch
                        cands, note = fuzzsearch.fuzz_candidates(tier, log)
                    except Exception as e:  # noqa
                        cands, note = {}, "fuzz search: failed to run (%s); skipped" % e
                    ctx.notes.append(note)
                    if any(cands.values()):
                        spec["fuzz"](ctx, cands)
        if not tr_ok:
            ctx.tie_failures.append({"stream": "translator", "case": "; ".join(tr_errs)[:2000]})
        if not dump_ok:
            ctx.tie_failures.append({"stream": "tables-dump", "case": "; ".join(dump_msgs)[:2000]})

        # 6 verdict
        known = [k for k in load_known_findings() if k["property"] == pid]
        new_failures = []
        for f in ctx.oracle_failures:
            key = props.finding_key(f)
            hit = [k for k in known if k["key"] == key]
            if hit:
                continue
            new_failures.append(f)
        for k in known:
            print("KNOWN-FINDING: property=%s %s" % (pid, k["what"]))
        wall = time.time() - t0
        violations = 0
        verdict_line = None
        if new_failures:
            violations = len(new_failures)
            rp = write_replay(pid, {"property": pid, "kind": "failing-input", "failure": new_failures[0],
                                    "all_failures": new_failures[:10], "seed": seed, "tier": tier})
            verdict_line = "VIOLATION property=%s replay=%s" % (pid, rp)
        elif ctx.obligation_failures or ctx.tie_failures:
            violations = 1
            what = []
            for o in ctx.obligation_failures:
                what.append("proof obligation no longer checks: %s %s" % (o.get("file", o["kind"]), o.get("line", "")))
            for t in ctx.tie_failures[:5]:
                what.append("correspondence stream no longer agrees: %s" % t["stream"])
            rp = write_replay(pid, {"property": pid, "kind": "no-failing-input-found", "unchecked": what,
                                    "obligation_failures": ctx.obligation_failures, "tie_failures": ctx.tie_failures[:10],
                                    "seed": seed, "tier": tier,
                                    "note": "the witness search (spec oracles over the exploration set) found no input on which the property fails on the implementation"})
            verdict_line = "VIOLATION property=%s replay=%s no-failing-input-found" % (pid, rp)

        ev = {
            "property_id": pid, "tier": tier, "seed": seed, "level": "proof",
            "coverage": {
                "obligations": max(obligations, 1), "discharged": discharged,
                "checker_cmd": "cd /verif/coq && make %s (coqc 8.16.1, full .vo build) + Print Assumptions audit + forbidden-vernacular grep" % target,
                "trusted_base": TRUSTED_BASE + spec.get("trusted_extra", []),
                "theorems": thms,
                "assumptions": assumptions,
                "coqchk": coqchk,
                "evaluations": max(ctx.evaluations, 1),
                "distinct_nontrivial": len(ctx.distinct),
                "rule": spec.get("rule", ""),
                "samples": ctx.samples[:12] or [{"note": "no stream ran"}],
                "streams": ctx.streams,
                "oracles": ctx.oracles,
                "input_distribution": ctx.distribution,
                "translator_ok": tr_ok, "translator_errors": tr_errs, "translator_degraded": parsed.get("degraded", []),
                "dump_crosscheck_ok": dump_ok,
                "obligation_failures": ctx.obligation_failures[:5],
                "tie_failures": len(ctx.tie_failures),
                "oracle_failures": len(ctx.oracle_failures),
                "notes": ctx.notes,
                "exhaustive": False,
            },
            "assumptions": spec.get("assumes", []),
            "wall_s": round(wall, 2),
            "violations": violations,
        }
        os.makedirs(os.path.join(VERIF, "evidence"), exist_ok=True)
        # a replay run re-executes one recorded case: it does not describe the property's exploration, so it does not
        # overwrite the evidence file
        if not replay:
            with open(os.path.join(VERIF, "evidence", pid + ".json"), "w") as f:
                json.dump(ev, f, indent=1, default=str)
        log("%s %s: obligations %d/%d, evaluations %d, streams %s, oracles %s, %.1fs" % (
            pid, tier, discharged, obligations, ctx.evaluations,
            {k: (v["cases"], v["disagreements"]) for k, v in ctx.streams.items()},
            {k: (v["cases"], v["failures"]) for k, v in ctx.oracles.items()}, wall))
        if verdict_line:
            print(verdict_line)
            return 1
        return 0


if __name__ == "__main__":
    sys.exit(main())
