#!/usr/bin/env python3
"""Run the checks against a seeded change: apply seeded/<ID>/<k>/patch.diff to /repo, run `bin/vcheck <ID> quick`
(and optionally other properties), undo the change. Usage: mutest.py <seed-dir> [ID ...]"""
import json, os, subprocess, sys, time
V = os.path.dirname(os.path.dirname(os.path.abspath(__file__)))
seed = os.path.abspath(sys.argv[1])
meta = json.load(open(os.path.join(seed, "meta.json"))) if os.path.exists(os.path.join(seed, "meta.json")) else {}
ids = sys.argv[2:] or [meta.get("property")]
st = subprocess.run(["git", "-C", "/repo", "status", "--porcelain"], stdout=subprocess.PIPE, text=True).stdout.strip()
if st:
    print("refusing: /repo has uncommitted changes:\n" + st); sys.exit(2)
r = subprocess.run(["git", "-C", "/repo", "apply", os.path.join(seed, "patch.diff")])
if r.returncode != 0:
    print("patch does not apply"); sys.exit(2)
res = {}
tier = os.environ.get("MUTEST_TIER", "quick")
if tier != "quick":
    os.environ["FQ_NO_COQCHK"] = "1"   # the independent re-check of unchanged proofs is not what a mutation run is about
import shutil
saved = {}
for pid in ids:
    ev = os.path.join(V, "evidence", pid + ".json")
    if os.path.exists(ev):
        saved[pid] = open(ev).read()
try:
    for pid in ids:
        t0 = time.time()
        p = subprocess.run([os.path.join(V, "bin", "vcheck"), pid, tier], stdout=subprocess.PIPE, stderr=subprocess.STDOUT, text=True)
        lines = p.stdout.strip().split("\n")
        viol = [l for l in lines if l.startswith("VIOLATION")]
        res[pid] = {"exit": p.returncode, "violation": viol[-1] if viol else None, "wall_s": round(time.time() - t0, 1), "tail": lines[-3:]}
        print(pid, p.returncode, viol[-1] if viol else "-", "%.0fs" % (time.time() - t0), flush=True)
finally:
    # evidence files committed under /verif describe the UNCHANGED tree: put them back
    for pid, txt in saved.items():
        open(os.path.join(V, "evidence", pid + ".json"), "w").write(txt)
    subprocess.run(["git", "-C", "/repo", "checkout", "--", "."])
    subprocess.run(["git", "-C", "/repo", "clean", "-fdq", "-e", "target"])
json.dump(res, open(os.path.join(seed, "check_result.json" if tier == "quick" else "check_result_%s.json" % tier), "w"), indent=1)
