#!/bin/bash
# Re-check the whole compiled development with the independent checker (hours). Output: work/coqchk_all.log
cd "$(dirname "$0")/../coq"
mods=$(ls Properties/C*.v | sed 's|Properties/\(C[0-9]*\)\.v|FQ.Properties.\1|' | tr '\n' ' ')
( time coqchk -silent -o -Q . FQ $mods ) > ../work/coqchk_all.log 2>&1
tail -20 ../work/coqchk_all.log
