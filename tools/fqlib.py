"""Shared machinery of the fast_qr checks: building, running the two executables, diffing, evidence."""
import fcntl
import hashlib
import json
import os
import random
import re
import subprocess
import sys
import time

VERIF = os.path.dirname(os.path.dirname(os.path.abspath(__file__)))
REPO = os.environ.get("FQ_REPO", "/repo")
COQ = os.path.join(VERIF, "coq")
WORK = os.path.join(VERIF, "work")
REPLAYS = os.path.join(VERIF, "replays")
FQH = os.path.join(VERIF, "harness", "target", "debug", "fqh")
FQM = os.path.join(VERIF, "driver", "fqm")
NPROC = 16

FORBIDDEN = re.compile(r"\b(Admitted|admit|Axiom|Axioms|Parameter|Parameters|Conjecture|Conjectures|Hypothesis|Hypotheses|Variable|Variables)\b|Unset\s+Guard|Unset\s+Positivity|Unset\s+Universe|bypass_check|type-in-type|impredicative-set|native_compute|Admit\s+Obligations")
# Variable/Hypothesis are allowed inside Sections only; files using them are listed here with the reason
SECTION_VARIABLE_FILES = {"Model/File.v": "Section FS: file-system oracle variables and hypotheses (C19), closed by End FS",
                          "Lib/Mat.v": "Section M: Context {A} (d : A)"}


class Log:
    def __init__(self):
        self.lines = []

    def __call__(self, *a):
        s = " ".join(str(x) for x in a)
        self.lines.append(s)
        print(s, flush=True)


log = Log()


def sh(cmd, timeout=3600, cwd=None, env=None, check=False):
    e = dict(os.environ)
    e["CARGO_NET_OFFLINE"] = "true"
    if env:
        e.update(env)
    t0 = time.time()
    try:
        p = subprocess.run(cmd, shell=isinstance(cmd, str), cwd=cwd, env=e, timeout=timeout,
                           stdout=subprocess.PIPE, stderr=subprocess.STDOUT, text=True, errors="replace")
        out, rc = p.stdout, p.returncode
    except subprocess.TimeoutExpired as ex:
        out = (ex.stdout or b"")
        if isinstance(out, bytes):
            out = out.decode("utf-8", "replace")
        out += "\nTIMEOUT after %ds" % timeout
        rc = 124
    if check and rc != 0:
        raise RuntimeError("command failed (%d): %s\n%s" % (rc, cmd, out[-3000:]))
    return rc, out, time.time() - t0


class Lock:
    def __enter__(self):
        os.makedirs(WORK, exist_ok=True)
        self.f = open(os.path.join(VERIF, ".lock"), "w")
        fcntl.flock(self.f, fcntl.LOCK_EX)
        return self

    def __exit__(self, *a):
        fcntl.flock(self.f, fcntl.LOCK_UN)
        self.f.close()


# ------------------------------------------------------------------------------------------ build steps
def translate():
    """tie #1: regenerate coq/Generated from /repo. Returns (ok, errors, parsed-json).
    If an item cannot be parsed any more, the finite-domain items are taken from the extensional dump (which needs the
    harness): the theorems are then still re-checked against exactly what the code computes, and the run is marked degraded."""
    rs2v = [sys.executable, os.path.join(VERIF, "tools", "rs2v.py"), "--allow-errors"]
    rc, out, _ = sh(rs2v)
    errs = [l for l in out.splitlines() if l.startswith("TRANSLATOR-ERROR")]
    if errs:
        okh, _, _ = build_harness()
        if okh:
            dump = os.path.join(WORK, "tables_dump.json")
            sh("%s tables > %s" % (FQH, dump), timeout=600)
            rc, out, _ = sh(rs2v + ["--dump", dump])
            errs = [l for l in out.splitlines() if l.startswith("TRANSLATOR-ERROR")]
            for l in out.splitlines():
                if l.startswith("TRANSLATOR-DEGRADED") or l.startswith("TRANSLATOR-NOTE"):
                    log(l)
    parsed = {}
    try:
        parsed = json.load(open(os.path.join(WORK, "tables_parsed.json")))
    except Exception as e:  # noqa
        errs.append("TRANSLATOR-ERROR no parsed json: %s" % e)
    # after a fallback the remaining parse errors are notes unless a key needed for emission is still missing
    emitted = "rs2v: ok" in out
    return (emitted and not [e for e in errs if "emit" in e or "no parsed" in e] and (not errs or bool(parsed.get("degraded")))), errs, parsed


def build_harness():
    rc, out, dt = sh(["bash", "-c", "cargo build --offline 2>&1 | grep -E '^error' -A12 | head -80; exit ${PIPESTATUS[0]}"],
                     cwd=os.path.join(VERIF, "harness"), timeout=1800)
    # Cargo.lock must match /repo's (copied at setup); keep offline
    return rc == 0 and os.path.exists(FQH), out, dt


def coq_makefile():
    if not os.path.exists(os.path.join(COQ, "Makefile")) or \
            os.path.getmtime(os.path.join(COQ, "Makefile")) < os.path.getmtime(os.path.join(COQ, "_CoqProject")):
        sh("coq_makefile -f _CoqProject -o Makefile", cwd=COQ, check=True)


def gen_hash():
    """content hash of the generated tables AND of every hand-written source (objects cached for one set of hand-written
    sources must never be restored over another)"""
    h = hashlib.sha256()
    for dp, dn, fn in sorted(os.walk(COQ)):
        dn.sort()
        for f in sorted(fn):
            if f.endswith(".v") or f == "_CoqProject":
                h.update(os.path.relpath(os.path.join(dp, f), COQ).encode())
                h.update(open(os.path.join(dp, f), "rb").read())
    return h.hexdigest()[:16]


def vo_cache_switch():
    """Compiled files are cached per content of Generated/*.v, so that a changed table (and its later revert) does not
    force two full rebuilds. The cache holds copies of every .vo/.glob and of Generated/*.v with their mtimes."""
    cur = gen_hash()
    tag = os.path.join(COQ, ".gen_hash")
    old = open(tag).read().strip() if os.path.exists(tag) else None
    if old == cur:
        return
    cache = os.path.join(WORK, "vo_cache")
    os.makedirs(cache, exist_ok=True)
    if old:
        dst = os.path.join(cache, old)
        if not os.path.isdir(dst):
            # Generated/*.v in the tree now have the NEW content; the old-content .vo files are still valid for `old`
            sh("mkdir -p %s && rsync -a --include='*/' --include='*.vo' --include='*.glob' --include='*.vok' --include='*.vos' --include='.*.aux' --exclude='*' ./ %s/" % (dst, dst), cwd=COQ)
            # keep the old generated sources (from the cached copy made at the previous switch, if any)
    src = os.path.join(cache, cur)
    if os.path.isdir(src):
        sh("rsync -a %s/ ./" % src, cwd=COQ)
        # make the generated sources look older than the restored objects
        sh("find Generated -name '*.v' -exec touch -d '2000-01-01' {} +", cwd=COQ)
        os.utime(src)        # least-recently-USED eviction: the unchanged tree's entry stays while mutants come and go
        log("  [vo cache: restored objects for generated tables %s]" % cur)
    with open(tag, "w") as f:
        f.write(cur)
    # keep the cache small
    ents = sorted((os.path.getmtime(os.path.join(cache, e)), e) for e in os.listdir(cache))
    for _, e in ents[:-8]:
        sh("rm -rf %s" % os.path.join(cache, e))


def coq_make(target, timeout=2400):
    coq_makefile()
    try:
        vo_cache_switch()
    except Exception as e:  # noqa
        log("  [vo cache disabled: %s]" % e)
    rc, out, dt = sh("make -j%d %s 2>&1" % (NPROC, target), cwd=COQ, timeout=timeout)
    return rc == 0, out, dt


def model_stamp():
    h = hashlib.sha256()
    for sub in ["Lib", "Model", "Spec", "Generated", "Extract"]:
        d = os.path.join(COQ, sub)
        if not os.path.isdir(d):
            continue
        for f in sorted(os.listdir(d)):
            if f.endswith(".v"):
                h.update(f.encode())
                h.update(open(os.path.join(d, f), "rb").read())
    for f in ["main.ml", "render.ml"]:
        h.update(open(os.path.join(VERIF, "driver", f), "rb").read())
    return h.hexdigest()


def build_driver():
    """extract + ocamlopt, only when the model, spec or driver sources changed"""
    stamp = model_stamp()
    sf = os.path.join(VERIF, "driver", ".stamp")
    if os.path.exists(FQM) and os.path.exists(sf) and open(sf).read() == stamp:
        return True, "up to date", 0.0
    ok, out, dt = coq_make("Extract/Deps.vo")
    if not ok:
        return False, out, dt
    rc, out2, dt2 = sh(os.path.join(VERIF, "bin", "build-driver"), timeout=1200)
    if rc == 0:
        open(sf, "w").write(stamp)
    return rc == 0, out + out2, dt + dt2


def audit_sources():
    """grep the whole development for forbidden vernacular; Variable/Hypothesis/Context are accepted only inside a Section.
    returns list of findings"""
    bad = []
    for dp, dn, fn in os.walk(COQ):
        for f in fn:
            if not f.endswith(".v"):
                continue
            rel = os.path.relpath(os.path.join(dp, f), COQ)
            text = open(os.path.join(dp, f), encoding="utf-8").read()
            text = re.sub(r"\(\*.*?\*\)", "", text, flags=re.S)
            depth = 0
            for sent in re.split(r"(?<=\.)\s", text):
                st = sent.strip()
                if re.match(r"Section\s+\w+\s*\.$", st):
                    depth += 1
                    continue
                if re.match(r"End\s+\w+\s*\.$", st) and depth > 0:
                    depth -= 1
                    continue
                for m in FORBIDDEN.finditer(st):
                    w = m.group(0)
                    if w.split()[0] in ("Variable", "Variables", "Hypothesis", "Hypotheses") and depth > 0:
                        continue
                    bad.append("%s: %s" % (rel, w))
    return bad


def print_assumptions(prop_file):
    """recompile Properties/<ID>.v alone (dependencies are up to date) and parse its Print Assumptions output.
    returns (ok, {theorem: [axioms]}, raw)"""
    rc, out, _ = sh("coqc -q -Q . FQ %s" % prop_file, cwd=COQ, timeout=1200)
    res = {}
    names = re.findall(r"Print Assumptions\s+(\w+)\.", open(os.path.join(COQ, prop_file)).read())
    blocks = re.split(r"(?=Closed under the global context|Axioms:)", out)
    blocks = [b for b in blocks if b.startswith("Closed under") or b.startswith("Axioms:")]
    for i, nm in enumerate(names):
        if i < len(blocks):
            b = blocks[i]
            if b.startswith("Closed under"):
                res[nm] = []
            else:
                res[nm] = re.findall(r"^(\S+)\s*:", b[len("Axioms:"):], flags=re.M)
        else:
            res[nm] = ["<no output>"]
    return rc == 0, res, out


# ------------------------------------------------------------------------------------------ running cases
def run_exe(exe, cases, tag, shards=NPROC, timeout=3000):
    """run `exe run file` over the cases, sharded round-robin; returns list of output lines (same order)"""
    os.makedirs(WORK, exist_ok=True)
    n = len(cases)
    if n == 0:
        return []
    t0 = time.time()
    shards = max(1, min(shards, n))
    procs = []
    for i in range(shards):
        chunk = cases[i::shards]
        fn = os.path.join(WORK, "%s.%d.cases" % (tag, i))
        on = os.path.join(WORK, "%s.%d.out" % (tag, i))
        with open(fn, "w") as f:
            f.write("\n".join(chunk) + "\n")
        cmd = [exe, "run", fn]
        if exe == FQM:
            cmd = ["bash", "-c", "ulimit -s unlimited 2>/dev/null; exec %s run %s" % (exe, fn)]
        of = open(on, "wb")
        procs.append((i, len(chunk), on, of, subprocess.Popen(cmd, stdout=of, stderr=subprocess.DEVNULL)))
    outs = [None] * n
    deadline = time.time() + timeout
    for i, cnt, on, of, p in procs:
        try:
            p.wait(timeout=max(1, deadline - time.time()))
        except subprocess.TimeoutExpired:
            p.kill()
        of.close()
        lines = open(on, "rb").read().decode("utf-8", "replace").split("\n")
        if lines and lines[-1] == "":
            lines.pop()
        if len(lines) < cnt:
            lines += ["CRASH-OR-TIMEOUT"] * (cnt - len(lines))
        outs[i::shards] = lines[:cnt]
    dt = time.time() - t0
    if dt > 5:
        log("  [%s: %d cases in %.1fs]" % (tag, n, dt))
    return outs


def hexs(b):
    if isinstance(b, str):
        b = b.encode("utf-8")
    return b.hex() if len(b) else "-"


def write_replay(pid, payload):
    os.makedirs(REPLAYS, exist_ok=True)
    fn = os.path.join(REPLAYS, "%s_%d.json" % (pid, int(time.time() * 1000) % 10 ** 10))
    with open(fn, "w") as f:
        json.dump(payload, f, indent=1)
    return fn


def load_known_findings():
    out = []
    fn = os.path.join(VERIF, "known_findings.txt")
    if os.path.exists(fn):
        for l in open(fn):
            l = l.strip()
            m = re.match(r"finding:\s*property=(\w+)\s+key=(\S+)\s+(.*)", l)
            if m:
                out.append({"property": m.group(1), "key": m.group(2), "what": m.group(3)})
    return out


class Rng(random.Random):
    pass
