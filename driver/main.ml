(* fqm: runs the extracted Coq model (and spec oracles) on case lines; prints one canonical line per case.
   Hand-written glue (trusted): parsing, int <-> N/nat conversion, printing. *)
open BinNums
open Datatypes
module L = Stdlib.List
module Str = Stdlib.String

let rec pos_of_int n = if n = 1 then Coq_xH else if n land 1 = 0 then Coq_xO (pos_of_int (n lsr 1)) else Coq_xI (pos_of_int (n lsr 1))
let n_of_int n = if n = 0 then N0 else Npos (pos_of_int n)
let rec int_of_pos = function Coq_xH -> 1 | Coq_xO p -> 2 * int_of_pos p | Coq_xI p -> 2 * int_of_pos p + 1
let int_of_n = function N0 -> 0 | Npos p -> int_of_pos p
let nat_of_int n = let rec go acc k = if k = 0 then acc else go (S acc) (k - 1) in go O n
let int_of_nat n = let rec go acc = function O -> acc | S m -> go (acc + 1) m in go 0 n
(* decimal strings of any size *)
let n_of_string s =
  let ten = n_of_int 10 in
  let acc = ref N0 in
  Str.iter (fun c -> acc := BinNat.N.add (BinNat.N.mul !acc ten) (n_of_int (Char.code c - 48))) s; !acc
let string_of_n n =
  if n = N0 then "0" else begin
    let ten = n_of_int 10 in
    let b = Buffer.create 20 in
    let rec go n acc = if n = N0 then acc else
      let (q, r) = BinNat.N.div_eucl n ten in go q (Char.chr (48 + int_of_n r) :: acc) in
    L.iter (Buffer.add_char b) (go n []); Buffer.contents b end

let unhex s = if s = "-" then [] else
  L.init (Str.length s / 2) (fun i -> n_of_int (int_of_string ("0x" ^ Str.sub s (2 * i) 2)))
let hex l = if l = [] then "-" else begin
  let b = Buffer.create (2 * L.length l) in
  L.iter (fun x -> Buffer.add_string b (Printf.sprintf "%02x" (int_of_n x))) l; Buffer.contents b end
let hex_ints l = if l = [] then "-" else begin
  let b = Buffer.create (2 * L.length l) in
  L.iter (fun x -> Buffer.add_string b (Printf.sprintf "%02x" x)) l; Buffer.contents b end

let opt f s = if s = "-" then None else Some (f (int_of_string s))
let ecl i = Types.ecl_of_idx (nat_of_int i)
let mode i = Types.mode_of_idx (nat_of_int i)

let mat_bytes (m : Types.qmat) = L.concat_map (fun row -> L.map Types.cell_byte row) m
let matrix_hex n (m : Types.qmat) = Printf.sprintf "%d %s 0" n (hex (mat_bytes m))
let cell_of_byte b = let x = int_of_n b in (n_of_int (x lsr 1), x land 1 = 1)
let matrix_from n bytes : Types.qmat =
  let arr = Array.of_list bytes in
  L.init n (fun r -> L.init n (fun c -> cell_of_byte arr.(r * n + c)))
let rows_from n bytes : BinNums.coq_N list list =
  let arr = Array.of_list bytes in
  L.init n (fun r -> L.init n (fun c -> arr.(r * n + c)))
let poly_hash l = L.fold_left (fun h b -> (h * 31 + int_of_n b) mod 1_000_000_007) 7 l
let rec take k l = if k = 0 then [] else match l with [] -> [] | x :: t -> x :: take (k - 1) t
let rec drop k l = if k = 0 then l else match l with [] -> [] | _ :: t -> drop (k - 1) t
let count_nz l = L.length (L.filter (fun x -> x <> N0) l)
let stream_buf s = let k = L.length s in if k < 5430 then s @ L.init (5430 - k) (fun _ -> N0) else s
let vsize v = 4 * v + 17 + 4

let options m e v k : Qr.options =
  { Qr.o_mode = opt mode m; Qr.o_ecl = opt ecl e; Qr.o_version = opt nat_of_int v; Qr.o_mask = opt nat_of_int k }

let run_case (line : string) : string =
  let a = Array.of_list (L.filter (fun s -> s <> "") (Str.split_on_char ' ' line)) in
  match a.(0) with
  | "vget" ->
    (match Hardcode.version_get (mode (int_of_string a.(1))) (ecl (int_of_string a.(2))) (n_of_string a.(3)) with
     | Some v -> string_of_int (int_of_nat v) | None -> "NONE")
  | "blank" -> let v = int_of_string a.(1) in "OK " ^ matrix_hex (vsize v) (Default.blank (nat_of_int v))
  | "enc" ->
    let m = mode (int_of_string a.(1)) and e = ecl (int_of_string a.(2)) and v = nat_of_int (int_of_string a.(3)) in
    let input = unhex a.(4) in
    (match Encode.encode_panic input e m v with
     | Some _ -> "PANIC"
     | None ->
       let c = Encode.encode input e m v in
       let t = int_of_n (Hardcode.max_bytes v) in
       Printf.sprintf "OK %s %d %s %d" (string_of_n c.Compact.clen) (L.length c.Compact.cdata)
         (hex (take t c.Compact.cdata)) (count_nz (drop t c.Compact.cdata)))
  | "div" ->
    let f = unhex a.(1) and g = unhex a.(2) in
    if Poly.division_panics f g then "PANIC" else "OK " ^ hex (Poly.division_buffer f g)
  | "struct" ->
    let e = ecl (int_of_string a.(1)) and v = nat_of_int (int_of_string a.(2)) in
    let r = Poly.structure_buffer (unhex a.(3)) e v in
    let t = int_of_n (Hardcode.max_bytes v) in
    Printf.sprintf "OK %s %d" (hex (take t r)) (count_nz (drop t r))
  | "place" | "mask" ->
    let v = int_of_string a.(1) in
    let n = vsize v in
    let (k, sidx) = if a.(0) = "mask" then (Some (int_of_string a.(2)), 3) else (None, 2) in
    let bytes = stream_buf (unhex a.(sidx)) in
    let (m, _) = Placement.place_data (nat_of_int n) (Default.blank (nat_of_int v)) bytes in
    let m = match k with Some k -> Masking.apply_mask (nat_of_int n) m (nat_of_int k) | None -> m in
    "OK " ^ matrix_hex n m
  | "maskraw" ->
    let n = int_of_string a.(1) and k = int_of_string a.(2) in
    "OK " ^ matrix_hex n (Masking.apply_mask (nat_of_int n) (matrix_from n (unhex a.(3))) (nat_of_int k))
  | "transpose" ->
    let n = int_of_string a.(1) in
    "OK " ^ matrix_hex n (Default.transpose (nat_of_int n) (matrix_from n (unhex a.(2))))
  | "fmt" ->
    let v = int_of_string a.(1) in
    let n = vsize v in
    "OK " ^ matrix_hex n (Default.place_format (nat_of_int n) (Default.blank (nat_of_int v)) (ecl (int_of_string a.(2))) (nat_of_int (int_of_string a.(3))))
  | "best" -> string_of_int (int_of_nat (Types.mode_idx (Encode.best_encoding (unhex a.(1)))))
  | "alnum" ->
    let c = n_of_int (int_of_string a.(1)) in
    (match Encode.ascii_to_alphanumeric c with
     | Some x -> Printf.sprintf "%d %d" (if Encode.is_qr_alphanumeric c then 1 else 0) (int_of_n x)
     | None -> "PANIC")
  | "build" | "sel" | "cands" ->
    let o = options a.(1) a.(2) a.(3) a.(4) in
    let input = unhex a.(5) in
    (match Qr.build_unchecked input o with
     | Types.Ok q ->
       let head = Printf.sprintf "OK %d %d %d %d" (int_of_nat q.Types.q_version) (int_of_nat (Types.ecl_idx q.Types.q_ecl))
           (int_of_nat q.Types.q_mask) (int_of_nat (Types.mode_idx q.Types.q_mode)) in
       if a.(0) = "build" then head ^ " " ^ matrix_hex (int_of_nat q.Types.q_size) q.Types.q_mat
       else begin
         let tr = Qr.build_trace input o in
         if a.(0) = "sel" then
           head ^ Str.concat "" (L.map (fun ((k, s), c) ->
             Printf.sprintf " %d:%s:%d" (int_of_nat k) (string_of_n s) (poly_hash (mat_bytes c))) tr)
         else
           Printf.sprintf "OK %d %d" (int_of_nat q.Types.q_mask) (int_of_nat q.Types.q_size) ^
           Str.concat "" (L.map (fun ((k, s), c) ->
             Printf.sprintf " %d:%s:%s" (int_of_nat k) (string_of_n s) (hex (mat_bytes c))) tr)
       end
     | Types.ErrEncodedData -> if a.(0) = "cands" then "ERR" else "ERR1"
     | Types.ErrSpecifiedVersion -> if a.(0) = "cands" then "ERR" else "ERR2"
     | Types.Panic _ -> "PANIC")
  | "line" ->
    let l = L.map cell_of_byte (unhex a.(1)) in
    if l = [] then "PANIC" else
    let (p, s) = Score.line l in Printf.sprintf "%s %s" (string_of_n p) (string_of_n s)
  | "score" ->
    let n = int_of_string a.(1) in
    let m = matrix_from n (unhex a.(2)) in
    let nn = nat_of_int n in
    if Score.dark_panics nn m then "PANIC" else   (* PERCENT_SCORE[100]: a matrix without any light module *)
    let mt = Default.transpose nn m in
    let (p1, l1) = Score.lines_score m and (p2, l2) = Score.lines_score mt in
    Printf.sprintf "%s %s %s %s %s %s" (string_of_n l1) (string_of_n l2) (string_of_n (BinNat.N.add p1 p2))
      (string_of_n (Score.dark_score nn m)) (string_of_n (Score.squares m)) (string_of_n (Score.score nn m mt))
  | "pushbits" ->
    let c = ref (Compact.from_array (L.init (int_of_string a.(1)) (fun _ -> N0)) N0) in
    let panicked = ref false in
    for i = 2 to Array.length a - 1 do
      match Str.split_on_char ':' a.(i) with
      | ["u8"; w] -> c := Compact.push_u8 !c (n_of_int (int_of_string ("0x" ^ w)))
      | ["sl"; w] -> c := Compact.push_u8_slice !c (unhex w)
      | [x; w] ->
        let x = n_of_string x and w = n_of_string w in
        if Compact.push_bits_panics !c x w then panicked := true;
        if not !panicked then c := Compact.push_bits !c x w
      | _ -> failwith "pushbits op"
    done;
    if !panicked then "PANIC" else Printf.sprintf "OK %s %s" (string_of_n !c.Compact.clen) (hex !c.Compact.cdata)
  | "tostr" ->
    let n = int_of_string a.(1) in
    let m = matrix_from n (unhex a.(2)) in
    "OK " ^ Str.concat "," (L.map (fun x -> Printf.sprintf "%x" (int_of_n x)) (Helpers.print_matrix_with_margin (nat_of_int n) m))
  (* ---- spec oracles, run on the implementation's outputs ---- *)
  | "odecode" ->
    let n = int_of_string a.(1) in
    (match Iso.iso_decode (Oracles.vals_of (rows_from n (unhex a.(2)))) with
     | None -> "NONE"
     | Some d ->
       Printf.sprintf "OK %d %d %d %d" (int_of_nat d.Iso.d_version) (int_of_nat d.Iso.d_level) (int_of_nat d.Iso.d_mask)
         (L.length d.Iso.d_segments) ^
       Str.concat "" (L.map (fun (m, p) -> Printf.sprintf " %d %s" (int_of_nat m) (hex p)) d.Iso.d_segments))
  | "ofixed" -> if Oracles.oracle_fixed (rows_from (int_of_string a.(1)) (unhex a.(2))) then "1" else "0"
  | "olabels" -> if Oracles.oracle_labels (rows_from (int_of_string a.(1)) (unhex a.(2))) then "1" else "0"
  | "oformat" ->
    (match Oracles.oracle_format (rows_from (int_of_string a.(1)) (unhex a.(2))) with
     | None -> "NONE"
     | Some ((l, k), ok) -> Printf.sprintf "%d %d %d" (int_of_nat l) (int_of_nat k) (if ok then 1 else 0))
  | "ors" ->
    (match Oracles.oracle_rs (rows_from (int_of_string a.(1)) (unhex a.(2))) with
     | None -> "NONE"
     | Some (b, ok) -> Printf.sprintf "%d %d" (int_of_nat b) (if ok then 1 else 0))
  | "odcw" ->
    (match Oracles.oracle_data_codewords (rows_from (int_of_string a.(1)) (unhex a.(2))) with
     | None -> "NONE" | Some l -> hex l)
  | "omask" ->
    let n = int_of_string a.(2) in
    if Oracles.oracle_mask (nat_of_int (int_of_string a.(1))) (rows_from n (unhex a.(3))) (rows_from n (unhex a.(4))) then "1" else "0"
  | "openalty" -> string_of_n (Penalty.oracle_penalty (rows_from (int_of_string a.(1)) (unhex a.(2))))
  | "openparts" ->
    let ((a1, a2), a3) = Penalty.oracle_penalty_parts (rows_from (int_of_string a.(1)) (unhex a.(2))) in
    Printf.sprintf "%s %s %s" (string_of_n a1) (string_of_n a2) (string_of_n a3)
  | "openline" -> let (p, r) = Penalty.oracle_line (unhex a.(1)) in Printf.sprintf "%s %s" (string_of_n p) (string_of_n r)
  | "orsstream" ->
    if Oracles.oracle_rs_stream (nat_of_int (int_of_string a.(1))) (nat_of_int (int_of_string a.(2))) (unhex a.(3)) (unhex a.(4)) then "1" else "0"
  | "omaskiso" ->
    let n = int_of_string a.(2) in
    if Oracles.oracle_mask_iso (nat_of_int (int_of_string a.(1))) (rows_from n (unhex a.(3))) (rows_from n (unhex a.(4))) then "1" else "0"
  | "omode" -> string_of_int (int_of_nat (Oracles.oracle_mode (unhex a.(1))))
  | "oec" -> hex (Oracles.oracle_ec (unhex a.(1)) (nat_of_int (int_of_string a.(2))))
  | "ominver" ->
    (match Iso.iso_min_version (nat_of_int (int_of_string a.(1))) (nat_of_int (int_of_string a.(2))) (n_of_string a.(3)) with
     | Some v -> string_of_int (int_of_nat v) | None -> "NONE")
  | "oisocw" ->
    hex (Iso.iso_codewords (nat_of_int (int_of_string a.(1))) (nat_of_int (int_of_string a.(2))) (nat_of_int (int_of_string a.(3))) (unhex a.(4)))
  (* ---- builder histories, threads, files, raster sizes (model predictions) ---- *)
  | "hist" ->
    let input = unhex a.(1) in
    let ops = L.map (fun op ->
        if op = "build" then Builder.Build else
        match Str.split_on_char '=' op with
        | ["mode"; i] -> Builder.SetMode (mode (int_of_string i))
        | ["ecl"; i] -> Builder.SetEcl (ecl (int_of_string i))
        | ["version"; i] -> Builder.SetVersion (nat_of_int (int_of_string i))
        | ["mask"; i] -> Builder.SetMask (nat_of_int (int_of_string i))
        | _ -> failwith "hist op") (L.tl (L.tl (Array.to_list a))) in
    let (_, outs) = Builder.run_history (Builder.new_builder input) ops in
    let shash (s : string) = let h = ref 7 in Str.iter (fun c -> h := (!h * 31 + Char.code c) mod 1_000_000_007) s; !h in
    "OK" ^ Str.concat "" (L.map (fun r ->
        let d = match r with
          | Types.Ok q -> matrix_hex (int_of_nat q.Types.q_size) q.Types.q_mat
          | Types.ErrEncodedData -> "ERR1" | Types.ErrSpecifiedVersion -> "ERR2" | Types.Panic _ -> "PANIC" in
        Printf.sprintf " 1:%d" (shash d)) outs)
  | "raster" ->
    (* raster <size> <hexmatrix> opts... : predicted pixmap size (square document of side size + 2*margin) and zero mismatches *)
    let n = int_of_string a.(1) in
    let margin = ref 4 and fw = ref None and fh = ref None in
    for i = 3 to Array.length a - 1 do
      match Str.split_on_char '=' a.(i) with
      | ["margin"; v] -> margin := int_of_string v
      | ["fitw"; v] -> fw := Some (int_of_string v)
      | ["fith"; v] -> fh := Some (int_of_string v)
      | _ -> ()
    done;
    let side = n + 2 * !margin in
    let (w, h) = match !fw, !fh with
      | Some w, Some h -> let m = min w h in (m, m)
      | Some w, None -> (w, w)
      | None, Some h -> (h, h)
      | None, None -> (side, side) in
    Printf.sprintf "OK %d %d 0 0 1" w h
  | "threads" -> Printf.sprintf "OK %d 0" (int_of_string a.(1) * int_of_string a.(2))
  | "file" -> if L.mem a.(2) ["ok"; "overwrite"; "samelen"; "bare"; "trailspace"; "leadspace"; "trailnl"; "otherext"; "noext"] then "RET_OK same=1" else "RET_ERR"   (* fsize: the oracle's write_all fails *)
  | _ -> Render.run_case a

let () =
  match Sys.argv with
  | [| _; "run"; file |] ->
    let ic = open_in file in
    (try while true do
        let line = input_line ic in
        if Str.trim line <> "" then begin
          (try print_string (run_case line) with
           | Stack_overflow -> print_string "MODEL-STACK-OVERFLOW"
           | e -> print_string ("MODEL-EXN " ^ Printexc.to_string e));
          print_newline ()
        end
      done with End_of_file -> ())
  | _ -> prerr_endline "usage: fqm run <cases>"; exit 2
