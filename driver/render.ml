(* renderer / glue streams of the model: svg (Model/Svg.v), wasm and wasmqr (Model/Wasm.v).
   Hand-written glue (trusted): parsing of the case line, int <-> N/Z/nat conversion, hex printing. *)
open BinNums
open Datatypes
module L = Stdlib.List
module Str = Stdlib.String

exception Unsupported

let rec pos_of_int n = if n = 1 then Coq_xH else if n land 1 = 0 then Coq_xO (pos_of_int (n lsr 1)) else Coq_xI (pos_of_int (n lsr 1))
let n_of_int n = if n = 0 then N0 else Npos (pos_of_int n)
let z_of_int n = if n = 0 then Z0 else if n > 0 then Zpos (pos_of_int n) else Zneg (pos_of_int (- n))
let rec int_of_pos = function Coq_xH -> 1 | Coq_xO p -> 2 * int_of_pos p | Coq_xI p -> 2 * int_of_pos p + 1
let int_of_n = function N0 -> 0 | Npos p -> int_of_pos p
let nat_of_int n = let rec go acc k = if k = 0 then acc else go (S acc) (k - 1) in go O n
let int_of_nat n = let rec go acc = function O -> acc | S m -> go (acc + 1) m in go 0 n
(* decimal strings of any size (usize margins) *)
let n_of_string s =
  if s = "" then raise Unsupported;
  let ten = n_of_int 10 in
  let acc = ref N0 in
  Str.iter (fun c -> if c < '0' || c > '9' then raise Unsupported;
             acc := BinNat.N.add (BinNat.N.mul !acc ten) (n_of_int (Char.code c - 48))) s; !acc

let unhex s = if s = "-" then [] else
  L.init (Str.length s / 2) (fun i -> n_of_int (int_of_string ("0x" ^ Str.sub s (2 * i) 2)))
let hex l = if l = [] then "-" else begin
  let b = Buffer.create 65536 in
  let d = "0123456789abcdef" in
  L.iter (fun x -> let v = int_of_n x in Buffer.add_char b (Str.get d ((v lsr 4) land 15)); Buffer.add_char b (Str.get d (v land 15))) l;
  Buffer.contents b end

let split_once c s =
  match Str.index_opt s c with
  | Some i -> (Str.sub s 0 i, Str.sub s (i + 1) (Str.length s - i - 1))
  | None -> failwith "split_once"

(* matrix_from of the harness: QRCode::default(size) with the given module bytes written linearly; missing bytes
   are Module::data(LIGHT) = 0 *)
let cell_of_byte x = (n_of_int (x lsr 1), x land 1 = 1)
let matrix_from n (bytes : coq_N list) : Types.qmat =
  let arr = Array.of_list (L.map int_of_n bytes) in
  let get i = if i < Array.length arr then arr.(i) else 0 in
  L.init n (fun r -> L.init n (fun c -> cell_of_byte (get (r * n + c))))

(* an f64 literal with at most two decimals, as a count of hundredths; anything else is outside the model *)
let hundredths_of_string (s : string) : coq_Z =
  let neg, body =
    if Str.length s > 0 && Str.get s 0 = '-' then (true, Str.sub s 1 (Str.length s - 1))
    else if Str.length s > 0 && Str.get s 0 = '+' then (false, Str.sub s 1 (Str.length s - 1))
    else (false, s) in
  let ip, fp = match Str.index_opt body '.' with
    | Some i -> (Str.sub body 0 i, Str.sub body (i + 1) (Str.length body - i - 1))
    | None -> (body, "") in
  let digits t = Str.iter (fun c -> if c < '0' || c > '9' then raise Unsupported) t in
  digits ip; digits fp;
  if ip = "" && fp = "" then raise Unsupported;
  (* drop trailing zeros of the fraction *)
  let fp = let k = ref (Str.length fp) in while !k > 0 && Str.get fp (!k - 1) = '0' do decr k done; Str.sub fp 0 !k in
  if Str.length fp > 2 || Str.length ip > 15 then raise Unsupported;
  let fp = fp ^ Str.make (2 - Str.length fp) '0' in
  let v = (if ip = "" then 0 else int_of_string ip) * 100 + int_of_string fp in
  (* negative zero is not in the model; byte agreement with the f64 code is only claimed for multiples of 0.25 *)
  if neg && v = 0 then raise Unsupported;
  if v mod 25 <> 0 then raise Unsupported;
  z_of_int (if neg then - v else v)

let rgba (s : string) : Svg.rgba =
  match L.map int_of_n (unhex s) with
  | r :: g :: b :: a :: _ -> { Svg.c_r = n_of_int r; Svg.c_g = n_of_int g; Svg.c_b = n_of_int b; Svg.c_a = n_of_int a }
  | _ -> failwith "rgba"

let svg_configure (c : Svg.cfg) (o : string) : Svg.cfg =
  let (k, v) = split_once '=' o in
  match k with
  | "margin" -> Svg.set_margin c (n_of_string v)
  | "bg" | "bgv" -> Svg.set_background_color c (rgba v)
  | "fg" | "fgv" -> Svg.set_module_color c (rgba v)
  (* a three-component slice is an opaque colour *)
  | "bgv3" -> Svg.set_background_color c { (rgba v) with Svg.c_a = n_of_int 255 }
  | "fgv3" -> Svg.set_module_color c { (rgba v) with Svg.c_a = n_of_int 255 }
  | "ibgv" -> Svg.set_image_background_color c (rgba v)
  | "shapecv" -> let (s, col) = split_once ':' v in
    Svg.add_shape_color c (Svg.shape_of_idx (nat_of_int (int_of_string s))) (rgba col)
  (* fields of the QRCode value other than its modules: rendering does not depend on them *)
  | "qecl" | "qmask" | "qmode" | "qver" -> c
  | "shape" -> Svg.add_shape c (Svg.shape_of_idx (nat_of_int (int_of_string v)))
  | "shapec" -> let (s, col) = split_once ':' v in
    Svg.add_shape_color c (Svg.shape_of_idx (nat_of_int (int_of_string s))) (rgba col)
  | "image" -> Svg.set_image c (unhex v)
  | "ibg" -> Svg.set_image_background_color c (rgba v)
  | "ishape" -> Svg.set_image_background_shape c (Svg.ishape_of_idx (nat_of_int (int_of_string v)))
  | "isize" -> Svg.set_image_size c (hundredths_of_string v)
  | "igap" -> Svg.set_image_gap c (hundredths_of_string v)
  | "ipos" -> let (x, y) = split_once ',' v in Svg.set_image_position c (hundredths_of_string x) (hundredths_of_string y)
  | "fitw" | "fith" -> c
  | _ -> failwith ("unknown option " ^ k)

(* Vec<f64> argument: comma list, or - for empty *)
let floats (v : string) : coq_Z list =
  if v = "-" then [] else
  let parts = Str.split_on_char ',' v in
  if L.length parts = 2 then L.map hundredths_of_string parts
  else (* a position array whose length is not 2 is ignored by the setter: its values do not matter *)
    L.map (fun p -> try hundredths_of_string p with Unsupported -> Z0) parts

let wasm_configure (o : Wasm.svg_options) (op : string) : Wasm.svg_options =
  let (k, v) = split_once '=' op in
  match k with
  | "shape" -> Wasm.set_shape o (Svg.shape_of_idx (nat_of_int (int_of_string v)))
  | "modcol" -> Wasm.set_module_color o (unhex v)
  | "margin" -> Wasm.set_margin o (n_of_string v)
  | "bg" -> Wasm.set_background_color o (unhex v)
  | "image" -> Wasm.set_image o (unhex v)
  | "ibg" -> Wasm.set_image_background_color o (unhex v)
  | "ishape" -> Wasm.set_image_background_shape o (Svg.ishape_of_idx (nat_of_int (int_of_string v)))
  | "isize" -> (match L.map hundredths_of_string (Str.split_on_char ',' v) with
      | size :: gap :: _ -> Wasm.set_image_size o size gap
      | _ -> failwith "isize")
  | "ipos" -> Wasm.set_image_position o (floats v)
  | "ecl" -> Wasm.set_ecl o (Types.ecl_of_idx (nat_of_int (int_of_string v)))
  | "version" -> Wasm.set_version o (nat_of_int (int_of_string v))
  | _ -> failwith "unknown wasm op"

(* Deep recursions of the extracted spec functions (split_on, unescape over a whole document) can exceed the default
   8 MB stack on the largest symbols: in that case the single case is re-run in a child process with the stack limit
   raised (nothing is done when FQM_BIGSTACK is already set, so this cannot loop). *)
let with_big_stack (a : string array) (f : unit -> string) : string =
  try f () with Stack_overflow when Sys.getenv_opt "FQM_BIGSTACK" = None ->
    let tmp = Filename.temp_file "fqm" ".case" in
    let out = tmp ^ ".out" in
    let oc = open_out tmp in
    output_string oc (Str.concat " " (Array.to_list a)); output_char oc '\n'; close_out oc;
    let cmd = Printf.sprintf "ulimit -s unlimited 2>/dev/null || ulimit -s $(ulimit -Hs) 2>/dev/null; FQM_BIGSTACK=1 %s run %s > %s"
        (Filename.quote Sys.executable_name) (Filename.quote tmp) (Filename.quote out) in
    let _ = Sys.command cmd in
    let res = (try let ic = open_in out in let l = (try input_line ic with End_of_file -> "MODEL-STACK-OVERFLOW") in close_in ic; l
               with Sys_error _ -> "MODEL-STACK-OVERFLOW") in
    (try Sys.remove tmp with Sys_error _ -> ()); (try Sys.remove out with Sys_error _ -> ());
    res

let run_case (a : string array) : string =
  try
    match a.(0) with
    (* spec oracles on the IMPLEMENTATION's string *)
    | "oxml" ->
      (* oxml <size> <hexmatrix> <hex of svg string> key=value ... *)
      with_big_stack a (fun () ->
        let n = int_of_string a.(1) in
        let m = matrix_from n (unhex a.(2)) in
        let text = unhex a.(3) in
        let c = ref Svg.default in
        for i = 4 to Array.length a - 1 do c := svg_configure !c a.(i) done;
        match Xml.xml_parse text with
        | None -> "0 PARSE-FAIL"
        | Some d -> if d = SvgDoc.expected_doc !c (nat_of_int n) m then "1" else "0 DOC-MISMATCH")
    | "oxmlparse" ->
      with_big_stack a (fun () -> match Xml.xml_parse (unhex a.(1)) with Some _ -> "1" | None -> "0")
    | "svg" ->
      let n = int_of_string a.(1) in
      let m = matrix_from n (unhex a.(2)) in
      let c = ref Svg.default in
      for i = 3 to Array.length a - 1 do c := svg_configure !c a.(i) done;
      if Svg.to_str_panics !c (nat_of_int n) then "PANIC"
      else "OK " ^ hex (Svg.to_str !c (nat_of_int n) m) ^ " 1"
    | "wasmqr" ->
      (match Wasm.qr_unchecked (unhex a.(1)) with
       | Types.Ok l -> "OK " ^ hex l
       | Types.Panic _ -> "PANIC"
       | _ -> "MODEL-ERR")
    | "wasm" ->
      let content = unhex a.(1) in
      let o = ref Wasm.new_options in
      for i = 2 to Array.length a - 1 do o := wasm_configure !o a.(i) done;
      (match Wasm.qr_svg_unchecked content !o with
       | Types.Ok l -> "OK " ^ hex l
       | Types.Panic _ -> "PANIC"
       | _ -> "MODEL-ERR")
    | _ -> "MODEL-UNSUPPORTED " ^ a.(0)
  with Unsupported -> "MODEL-UNSUPPORTED " ^ a.(0)
