(* renderer / glue streams of the model (filled in as the model grows) *)
let run_case (a : string array) : string = "MODEL-UNSUPPORTED " ^ a.(0)
